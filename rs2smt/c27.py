"""C27  Distinct packages get distinct generated module names (crates/core/src/path.rs)

Symbolic: a Resolve with three packages in one namespace: names = valid kebab
names over {a,-,0,1} (<= 6 chars), versions optional; a version is
MAJOR.MINOR.PATCH (each 0..19) with optional pre-release and build metadata
(<= 4 chars over {a,0,1,-,.}) constrained by the SemVer grammar.
Real code: name_package_module interpreted from source for both package ids.
Library models: semver::Version Display, heck::ToSnakeCase (restricted to lower
case, validated exhaustively against the real crate on every run), id_arena.

Oracle (from the statement): (name0, version0) != (name1, version1)  =>
name_package_module(resolve, 0) != name_package_module(resolve, 1).
"""
import itertools
import json
import random
import z3
import bstr
from bstr import BStr, L, LB, Z8
from smtlib import (TRUE, FALSE, And, Or, Not, Ite, Eq, Ult, Ule, Add, Sub, Implies, bv, bvval, b2bv, is_t, is_f)
from interp import (Interp, StrV, IntV, EnumV, StructV, VecV, Unsupported, Inconclusive, some, none, option, IW)
from core import Inputs, load_asts, native_run, Result, eval_bool, eval_str, eval_bv
from hunt import hunt, self_test
import models

FILES = ["crates/core/src/path.rs"]
NAME_AL = "a-01"
NP = 3
ID_AL = "a01-."


def bounds(tier):
    if tier == "quick":
        return dict(name_len=6, num_hi=11, id_len=3)
    return dict(name_len=6, num_hi=19, id_len=4)


def is_digit(c):
    return And(z3.UGE(c, bv(48, 8)), z3.ULE(c, bv(57, 8)))


def valid_kebab(b):
    """non-empty, starts with a letter, no leading/trailing/double hyphen"""
    c = b.chars
    conj = [Not(bstr.is_empty(b)), Not(bstr.ceq(c[0], "-")), Not(is_digit(c[0]))]
    for i in range(b.cap):
        last = Eq(b.n, L(i + 1))
        conj.append(Implies(last, Not(bstr.ceq(c[i], "-"))))
        if i + 1 < b.cap:
            conj.append(Not(And(bstr.ceq(c[i], "-"), bstr.ceq(c[i + 1], "-"))))
    return And(*conj)


def valid_ident_list(b, numeric_rule):
    """SemVer pre-release (numeric_rule=True) / build metadata: dot separated
    non-empty identifiers over [0-9A-Za-z-]; numeric identifiers of a pre-release
    have no leading zero.  The empty string means 'absent' and is valid."""
    c = b.chars
    conj = []
    for i in range(b.cap):
        valid = Not(Eq(c[i], Z8))
        dot = bstr.ceq(c[i], ".")
        prev_dot = TRUE if i == 0 else bstr.ceq(c[i - 1], ".")
        next_end = Eq(b.n, L(i + 1))
        next_dot = bstr.ceq(c[i + 1], ".") if i + 1 < b.cap else FALSE
        # no empty identifier: a dot is not first, not last, not after a dot
        conj.append(Implies(And(valid, dot), And(Not(prev_dot), Not(next_end))))
        if numeric_rule:
            # identifier starting at i with '0' followed by another char of the same identifier, all digits -> invalid
            start = And(valid, Not(dot), prev_dot)
            # collect "identifier starting at i is all digits and longer than 1"
            alld = TRUE
            longer = FALSE
            for j in range(i, b.cap):
                inside = And(Not(Eq(c[j], Z8)), *[Not(bstr.ceq(c[k], ".")) for k in range(i, j + 1)])
                alld = And(alld, Implies(inside, is_digit(c[j])))
                if j > i:
                    longer = Or(longer, inside)
            conj.append(Implies(And(start, bstr.ceq(c[i], "0")), Not(And(alld, longer))))
    return And(*conj)


def py_valid_ident_list(s, numeric_rule):
    if s == "":
        return True
    for ident in s.split("."):
        if ident == "" or any(ch not in "0123456789abcdefghijklmnopqrstuvwxyzABCDEFGHIJKLMNOPQRSTUVWXYZ-" for ch in ident):
            return False
        if numeric_rule and ident.isdigit() and len(ident) > 1 and ident[0] == "0":
            return False
    return True


def mk_version(major, minor, patch, pre, build):
    return StructV("Version", {"major": major, "minor": minor, "patch": patch, "pre": pre, "build": build})


def mk_resolve(pkgs):
    """pkgs: list of (namespace StrV, name StrV, version EnumV Option<Version>)"""
    items = []
    for ns, name, ver in pkgs:
        items.append(StructV("Package", {"name": StructV("PackageName", {"namespace": ns, "name": name, "version": ver})}))
    arena = StructV("Arena", {"items": VecV(L(len(items)), items)})
    return StructV("Resolve", {"packages": arena})


def execute(it, pkgs):
    it.new_session()
    res = mk_resolve(pkgs)
    outs = []
    for i in range(len(pkgs)):
        r = it.deref(it.call(None, "name_package_module", None, [res, IntV.const(i)]))
        if not isinstance(r, StrV):
            raise Unsupported("name_package_module does not return a String")
        outs.append(r.b)
    return outs


def version_str(vals, i):
    if not vals["hasv%d" % i]:
        return None
    s = "%d.%d.%d" % (vals["maj%d" % i], vals["min%d" % i], vals["pat%d" % i])
    if vals["pre%d" % i]:
        s += "-" + vals["pre%d" % i]
    if vals["bld%d" % i]:
        s += "+" + vals["bld%d" % i]
    return s


def native_case(vals):
    return {"prop": "C27", "pkgs": [{"ns": "n", "name": vals["name%d" % i], "version": version_str(vals, i)} for i in range(NP)]}


def concrete_pkgs(case):
    pk = []
    for p in case["pkgs"]:
        if p["version"] is None:
            ver = none()
        else:
            v = p["version"]
            core_, _, build = v.partition("+")
            nums, _, pre = core_.partition("-")
            a, b, c = [int(x) for x in nums.split(".")]
            ver = some(mk_version(IntV.const(a), IntV.const(b), IntV.const(c), StrV(BStr.lit(pre)), StrV(BStr.lit(build))))
        pk.append((StrV(BStr.lit(p["ns"])), StrV(BStr.lit(p["name"])), ver))
    return pk


def validate_translator(asts, res, seed):
    it = Interp(asts, dict(tighten="off"))
    ok = True
    # (a) heck::to_snake_case model, exhaustively on short strings over the version/name alphabet
    al = "ab1_-.+"
    strs = [""]
    for n in range(1, 5):
        strs += ["".join(t) for t in itertools.product(al, repeat=n)]
    rnd = random.Random(seed * 7919 + 27)
    for _ in range(300):
        strs.append("".join(rnd.choice("abz019_-.+") for _ in range(rnd.randint(5, 12))))
    nat = native_run([{"prop": "snake", "inputs": strs}])[0]["outputs"]
    bad = 0
    for s_, exp in zip(strs, nat):
        it.panics = []
        got = it.models.snake(BStr.lit(s_), {"line": 0}).concrete()
        if got != exp:
            bad += 1
            if bad <= 3:
                res.inconclusive.append("model validation: to_snake_case(%r): model %r, heck %r" % (s_, got, exp))
    res.extra["snake_model_validation"] = {"cases": len(strs), "mismatches": bad}
    ok = ok and bad == 0
    # (a') the harness' valid-WIT-name predicate vs wit-parser, exhaustively on short names
    names_ = [""]
    for n in range(1, 5):
        names_ += ["".join(t) for t in itertools.product(NAME_AL, repeat=n)]
    names_ += ["a1-0-0", "ab-1-0", "a-b-0-1", "a1-0-", "a--1-0"]
    okw = native_run([{"prop": "wit", "names": [x for x in names_ if x]}])[0]["ok"]
    badk = 0
    for nm, w in zip([x for x in names_ if x], okw):
        mine = is_t(z3.simplify(valid_kebab(BStr.lit(nm)))) if True else False
        if mine != w:
            badk += 1
            if badk <= 3:
                res.inconclusive.append("name predicate validation: %r: harness says %s, wit-parser says %s" % (nm, mine, w))
    res.extra["wit_name_predicate_validation"] = {"cases": len(okw), "mismatches": badk}
    ok = ok and badk == 0
    # (b) Version Display model and (c) the whole function, on seeded concrete resolves
    cases = []
    vers = [None, "1.0.0", "0.1.0", "0.2.0", "1.0.0-a.b", "1.0.0-a-b", "1.0.0+a", "1.0.0-a", "10.2.19-a1.1+1.a", "1.0.0--a", "1.0.0-a--b",
            "0.0.1-1", "0.0.1-0", "2.3.4+0.01"]
    names = ["a", "aa", "a-a", "a1", "a1-0-0", "a0-1", "a-1", "a0"]
    for _ in range(200):
        n0 = rnd.choice(names)
        pk = [{"ns": "n", "name": n0, "version": rnd.choice(vers)}]
        for _j in range(rnd.randint(1, 2)):
            n1 = n0 if rnd.random() < 0.7 else rnd.choice(names)
            pk.append({"ns": "n" if rnd.random() < 0.9 else "m", "name": n1, "version": rnd.choice(vers)})
        cases.append({"prop": "C27", "pkgs": pk})
    natr = native_run(cases)
    mism = 0
    for case, nr in zip(cases, natr):
        it.panics = []
        outs = execute(it, concrete_pkgs(case))
        got = [o.concrete() for o in outs]
        if got != nr.get("names"):
            mism += 1
            if mism <= 3:
                res.inconclusive.append("translator validation mismatch on %s: interpreter %s native %s" % (case["pkgs"], got, nr))
    vs = [v for v in vers if v]
    natv = native_run([{"prop": "version", "inputs": vs}])[0]["outputs"]
    for v, nv in zip(vs, natv):
        pk = concrete_pkgs({"pkgs": [{"ns": "n", "name": "a", "version": v}]})
        disp = it.models.version_display(pk[0][2].payload["Some"][0], {"line": 0}).concrete()
        if disp != nv.get("ok"):
            mism += 1
            res.inconclusive.append("model validation: Version Display of %r: model %r, semver %r" % (v, disp, nv))
    res.extra["translator_validation"] = {"seeded_cases": len(cases), "version_display_cases": len(vs), "mismatches": mism}
    return ok and mism == 0


def run(ctx):
    tier, seed, dec = ctx["tier"], ctx["seed"], ctx["decider"]
    res = Result()
    B = bounds(tier)
    if tier == "quick":
        dec.timeout = 120      # CPU seconds per query: the final unsat proof needs 40-60 s
    res.bounds = {"packages": "three pairwise distinct packages in the same namespace",
                  "names": "valid WIT kebab names (start with a letter, no leading/trailing/double hyphen; predicate validated against "
                           "wit-parser) of length <= %d over {a,-,0,1}" % B["name_len"],
                  "versions": "absent, or MAJOR.MINOR.PATCH with each number in 0..%d, pre-release and build metadata each absent or "
                              "<= %d chars over {a,0,1,-,.} and valid per the SemVer grammar" % (B["num_hi"], B["id_len"])}
    res.outside_claim = ["more than two packages with the same name, longer names / identifiers, other characters",
                         "upper-case letters in pre-release / build identifiers (heck's case-boundary splitting is not modelled; "
                         "the model flags such inputs instead of guessing)",
                         "packages in different namespaces (the function does not look at them together)"]
    res.assumptions = ["package names are valid WIT kebab-case names",
                       "two packages are distinct iff their names differ or their Option<Version> differ (semver Eq, build metadata included)"]
    res.trusted_base = list(models.MODELS_DOC)
    res.functions = [(FILES[0], "pub fn name_package_module")]
    asts = load_asts(FILES)
    if not validate_translator(asts, res, seed):
        return res
    it = Interp(asts, dict(tighten="off"))
    inp = Inputs()
    pkgs = []
    P = []
    for i in range(NP):
        name = inp.str("name%d" % i, B["name_len"], NAME_AL)
        hasv = inp.flag("hasv%d" % i)
        maj = inp.usize("maj%d" % i, B["num_hi"])
        mi = inp.usize("min%d" % i, B["num_hi"])
        pat = inp.usize("pat%d" % i, B["num_hi"])
        pre = inp.str("pre%d" % i, B["id_len"], ID_AL)
        bld = inp.str("bld%d" % i, B["id_len"], ID_AL)
        inp.cons.append(valid_kebab(name.b))
        inp.cons.append(valid_ident_list(pre.b, True))
        inp.cons.append(valid_ident_list(bld.b, False))
        ver = option(hasv, mk_version(maj, mi, pat, pre, bld))
        pkgs.append((StrV(BStr.lit("n")), name, ver))
        P.append(dict(name=name, hasv=hasv, maj=maj, min=mi, pat=pat, pre=pre, bld=bld))
    it.assume(inp.wf())
    outs = execute(it, pkgs)
    res.extra["functions_interpreted"] = sorted("%s:%s" % k for k in it.encoded)
    model_bound = And(*[Not(c) for c, r, w in it.panics if r.startswith("MODEL-BOUND")])
    other_panics = And(*[Not(c) for c, r, w in it.panics if not r.startswith("MODEL-BOUND")])

    # ---- encoding with inputs fixed vs native
    rnd = random.Random(seed * 104729 + 27)
    vl = []
    tries = 0
    while len(vl) < 40 and tries < 4000:
        tries += 1
        vals = {}
        for i in range(NP):
            vals["name%d" % i] = rnd.choice(["a", "aa", "a-a", "a1", "a1-0-0", "a-1", "a0"])
            vals["hasv%d" % i] = rnd.randint(0, 1)
            for k in ("maj", "min", "pat"):
                vals["%s%d" % (k, i)] = rnd.randint(0, B["num_hi"])
            vals["pre%d" % i] = "".join(rnd.choice(ID_AL) for _ in range(rnd.randint(0, B["id_len"])))
            vals["bld%d" % i] = "".join(rnd.choice(ID_AL) for _ in range(rnd.randint(0, B["id_len"])))
        if all(py_valid_ident_list(vals["pre%d" % i], True) and py_valid_ident_list(vals["bld%d" % i], False) for i in range(NP)):
            if len(vl) % 2 == 0:
                vals["name1"] = vals["name0"]
            if len(vl) % 3 == 0:
                vals["name2"] = vals["name0"]
            vl.append(vals)
    nat = native_run([native_case(v) for v in vl])
    mism = 0
    for vals, nr in zip(vl, nat):
        pairs = inp.subst_pairs(vals)
        if not eval_bool(inp.wf(), pairs):
            mism += 1
            res.inconclusive.append("encoding validation: SemVer-valid input rejected by the input constraints: %s" % native_case(vals))
            continue
        got = [eval_str(o, pairs) for o in outs]
        if got != nr.get("names"):
            mism += 1
            res.inconclusive.append("encoding validation mismatch on %s: encoding %s native %s" % (native_case(vals)["pkgs"], got, nr))
    res.extra["encoding_validation"] = {"cases": len(vl), "mismatches": mism}
    if mism:
        return res

    def veq(a, b):
        same_some = And(a["hasv"], b["hasv"], Eq(a["maj"].term, b["maj"].term), Eq(a["min"].term, b["min"].term),
                        Eq(a["pat"].term, b["pat"].term), bstr.eq(a["pre"].b, b["pre"].b), bstr.eq(a["bld"].b, b["bld"].b))
        return Or(And(Not(a["hasv"]), Not(b["hasv"])), same_some)
    def has_digit(bs):
        return Or(*[is_digit(c) for c in bs.chars])
    pair_goals = []
    sh = {k: [] for k in ("digits", "names", "unver", "nums", "content", "pre", "bld", "both")}

    def alnum_content(p):
        t = bstr.concat(p["pre"].b, p["bld"].b)
        return bstr.compact(t.chars, [And(Not(Eq(c, Z8)), models.is_alnum_lower(c)) for c in t.chars])
    for i in range(NP):
        for j in range(i + 1, NP):
            a, b = P[i], P[j]
            names_eq = bstr.eq(a["name"].b, b["name"].b)
            distinct = Not(And(names_eq, veq(a, b)))
            coll = And(distinct, bstr.eq(outs[i], outs[j]))
            pair_goals.append(Not(coll))
            nums_eq = And(Eq(a["maj"].term, b["maj"].term), Eq(a["min"].term, b["min"].term), Eq(a["pat"].term, b["pat"].term))
            pre_eq = bstr.eq(a["pre"].b, b["pre"].b)
            bld_eq = bstr.eq(a["bld"].b, b["bld"].b)
            bothv = And(a["hasv"], b["hasv"])
            sh["digits"].append(And(coll, Not(names_eq), Or(has_digit(a["name"].b), has_digit(b["name"].b))))
            sh["names"].append(And(coll, Not(names_eq)))
            sh["unver"].append(And(coll, names_eq, Not(bothv)))
            sh["nums"].append(And(coll, names_eq, bothv, Not(nums_eq)))
            # the letters/digits of the pre-release + build identifiers differ (not just their separators / placement)
            sh["content"].append(And(coll, names_eq, bothv, nums_eq, Not(bstr.eq(alnum_content(a), alnum_content(b)))))
            sh["pre"].append(And(coll, names_eq, bothv, nums_eq, Not(pre_eq), bld_eq))
            sh["bld"].append(And(coll, names_eq, bothv, nums_eq, pre_eq, Not(bld_eq)))
            sh["both"].append(And(coll, names_eq, bothv, nums_eq, Not(pre_eq), Not(bld_eq)))
    goal = And(*pair_goals)
    distinct = TRUE
    # a resolve never holds two packages with the same (namespace, name, version)
    all_distinct = And(*[Not(And(bstr.eq(P[i]["name"].b, P[j]["name"].b), veq(P[i], P[j]))) for i in range(NP) for j in range(i + 1, NP)])
    shapes = [("name-digits-vs-version", Or(*sh["digits"])),
              ("names-differ", Or(*sh["names"])),
              ("versioned-vs-unversioned", Or(*sh["unver"])),
              ("numbers-differ", Or(*sh["nums"])),
              ("version-identifier-content-dropped", Or(*sh["content"])),
              ("prerelease-differs-only", Or(*sh["pre"])),
              ("build-metadata-differs-only", Or(*sh["bld"])),
              ("prerelease-and-build-differ", Or(*sh["both"]))]

    def collisions(case, names):
        out = []
        pk = case["pkgs"]
        for i in range(len(pk)):
            for j in range(i + 1, len(pk)):
                if (pk[i]["name"], pk[i]["version"]) != (pk[j]["name"], pk[j]["version"]) and names[i] == names[j]:
                    out.append((i, j))
        return out

    def replay_fn(vals):
        case = native_case(vals)
        nat = native_run([case])[0]
        names = nat.get("names")
        col = collisions(case, names) if names else []
        what = ""
        if col:
            i, j = col[0]
            pk = case["pkgs"]
            ctx = [p for k, p in enumerate(pk) if k not in (i, j)]
            what = "packages n:%s@%s and n:%s@%s both get module name %r (other package in the resolve: %s)" % (
                pk[i]["name"], pk[i]["version"], pk[j]["name"], pk[j]["version"], names[i],
                ", ".join("n:%s@%s" % (p["name"], p["version"]) for p in ctx))
        return {"reproduced": bool(col), "native": nat, "replay": {"native_case": case}, "what": what}
    base = [inp.wf(), model_bound, all_distinct]
    hunt(dec, res, "C27", "distinct-module-names", base + [other_panics], goal, shapes, inp, replay_fn,
         "C27/rs2smt/name_package_module/distinct",
         sample="distinct (name, version) => distinct module name; names<=%d, numbers<=%d, identifiers<=%d"
                % (B["name_len"], B["num_hi"], B["id_len"]))

    def replay_panic(vals):
        case = native_case(vals)
        nat = native_run([case])[0]
        return {"reproduced": "panic" in nat, "native": nat, "replay": {"native_case": case}, "what": "%s -> %s" % (case, nat)}
    hunt(dec, res, "C27", "no-panic", base, other_panics, [], inp, replay_panic, "C27/rs2smt/name_package_module/panic",
         sample="no panic in name_package_module (%d panic sites)" % len([1 for _, r, _ in it.panics if not r.startswith("MODEL")]))
    # the model bound (no upper case) must not exclude anything inside the input alphabet
    res.obligations += 1
    v, _, note = dec.decide("model-bound", [inp.wf()], model_bound)
    if v == "unsat":
        res.discharged += 1
    else:
        res.inconclusive.append("the to_snake_case model bound is reachable within the input alphabet (%s %s)" % (v, note))
    if tier == "thorough":
        self_test(dec, res, "distinct-module-names", base, Not(Eq(outs[0].n, outs[1].n)))
    return res


def replay(path):
    d = json.load(open(path))
    case = d["native_case"]
    nat = native_run([case])[0]
    print("replay %s: packages=%s" % (path, json.dumps(case["pkgs"])))
    print("  native module names: %s" % nat.get("names", nat))
    names = nat.get("names") or []
    p = case["pkgs"]
    bad = [(i, j) for i in range(len(names)) for j in range(i + 1, len(names))
           if (p[i]["name"], p[i]["version"]) != (p[j]["name"], p[j]["version"]) and names[i] == names[j]]
    print("  REPRODUCED (distinct packages %s, same module name)" % bad if bad else "  NOT REPRODUCED")
    return 0 if bad else 1
