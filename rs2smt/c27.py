"""C27  Distinct packages get distinct generated module names (crates/core/src/path.rs)

Symbolic: a Resolve with two packages in one namespace: names = valid kebab
names over {a,b,-} (<= 3 chars), versions optional; a version is
MAJOR.MINOR.PATCH (each 0..19) with optional pre-release and build metadata
(<= 4 chars over {a,0,1,-,.}) constrained by the SemVer grammar.
Real code: name_package_module interpreted from source for both package ids.
Library models: semver::Version Display, heck::ToSnakeCase (restricted to lower
case, validated exhaustively against the real crate on every run), id_arena.

Oracle (from the statement): (name0, version0) != (name1, version1)  =>
name_package_module(resolve, 0) != name_package_module(resolve, 1).
"""
import itertools
import json
import random
import z3
import bstr
from bstr import BStr, L, LB, Z8
from smtlib import (TRUE, FALSE, And, Or, Not, Ite, Eq, Ult, Ule, Add, Sub, Implies, bv, bvval, b2bv, is_t, is_f)
from interp import (Interp, StrV, IntV, EnumV, StructV, VecV, Unsupported, Inconclusive, some, none, option, IW)
from core import Inputs, load_asts, native_run, Result, eval_bool, eval_str, eval_bv
from hunt import hunt, self_test
import models

FILES = ["crates/core/src/path.rs"]
NAME_AL = "ab-"
ID_AL = "a01-."


def bounds(tier):
    if tier == "quick":
        return dict(name_len=3, num_hi=11, id_len=3)
    return dict(name_len=3, num_hi=19, id_len=4)


def is_digit(c):
    return And(z3.UGE(c, bv(48, 8)), z3.ULE(c, bv(57, 8)))


def valid_kebab(b):
    """non-empty, starts with a letter, no leading/trailing/double hyphen"""
    c = b.chars
    conj = [Not(bstr.is_empty(b)), Not(bstr.ceq(c[0], "-")), Not(is_digit(c[0]))]
    for i in range(b.cap):
        last = Eq(b.n, L(i + 1))
        conj.append(Implies(last, Not(bstr.ceq(c[i], "-"))))
        if i + 1 < b.cap:
            conj.append(Not(And(bstr.ceq(c[i], "-"), bstr.ceq(c[i + 1], "-"))))
    return And(*conj)


def valid_ident_list(b, numeric_rule):
    """SemVer pre-release (numeric_rule=True) / build metadata: dot separated
    non-empty identifiers over [0-9A-Za-z-]; numeric identifiers of a pre-release
    have no leading zero.  The empty string means 'absent' and is valid."""
    c = b.chars
    conj = []
    for i in range(b.cap):
        valid = Not(Eq(c[i], Z8))
        dot = bstr.ceq(c[i], ".")
        prev_dot = TRUE if i == 0 else bstr.ceq(c[i - 1], ".")
        next_end = Eq(b.n, L(i + 1))
        next_dot = bstr.ceq(c[i + 1], ".") if i + 1 < b.cap else FALSE
        # no empty identifier: a dot is not first, not last, not after a dot
        conj.append(Implies(And(valid, dot), And(Not(prev_dot), Not(next_end))))
        if numeric_rule:
            # identifier starting at i with '0' followed by another char of the same identifier, all digits -> invalid
            start = And(valid, Not(dot), prev_dot)
            # collect "identifier starting at i is all digits and longer than 1"
            alld = TRUE
            longer = FALSE
            for j in range(i, b.cap):
                inside = And(Not(Eq(c[j], Z8)), *[Not(bstr.ceq(c[k], ".")) for k in range(i, j + 1)])
                alld = And(alld, Implies(inside, is_digit(c[j])))
                if j > i:
                    longer = Or(longer, inside)
            conj.append(Implies(And(start, bstr.ceq(c[i], "0")), Not(And(alld, longer))))
    return And(*conj)


def py_valid_ident_list(s, numeric_rule):
    if s == "":
        return True
    for ident in s.split("."):
        if ident == "" or any(ch not in "0123456789abcdefghijklmnopqrstuvwxyzABCDEFGHIJKLMNOPQRSTUVWXYZ-" for ch in ident):
            return False
        if numeric_rule and ident.isdigit() and len(ident) > 1 and ident[0] == "0":
            return False
    return True


def mk_version(major, minor, patch, pre, build):
    return StructV("Version", {"major": major, "minor": minor, "patch": patch, "pre": pre, "build": build})


def mk_resolve(pkgs):
    """pkgs: list of (namespace StrV, name StrV, version EnumV Option<Version>)"""
    items = []
    for ns, name, ver in pkgs:
        items.append(StructV("Package", {"name": StructV("PackageName", {"namespace": ns, "name": name, "version": ver})}))
    arena = StructV("Arena", {"items": VecV(L(len(items)), items)})
    return StructV("Resolve", {"packages": arena})


def execute(it, pkgs):
    it.new_session()
    res = mk_resolve(pkgs)
    outs = []
    for i in range(len(pkgs)):
        r = it.deref(it.call(None, "name_package_module", None, [res, IntV.const(i)]))
        if not isinstance(r, StrV):
            raise Unsupported("name_package_module does not return a String")
        outs.append(r.b)
    return outs


def version_str(vals, i):
    if not vals["hasv%d" % i]:
        return None
    s = "%d.%d.%d" % (vals["maj%d" % i], vals["min%d" % i], vals["pat%d" % i])
    if vals["pre%d" % i]:
        s += "-" + vals["pre%d" % i]
    if vals["bld%d" % i]:
        s += "+" + vals["bld%d" % i]
    return s


def native_case(vals):
    return {"prop": "C27", "pkgs": [{"ns": "n", "name": vals["name%d" % i], "version": version_str(vals, i)} for i in range(2)]}


def concrete_pkgs(case):
    pk = []
    for p in case["pkgs"]:
        if p["version"] is None:
            ver = none()
        else:
            v = p["version"]
            core_, _, build = v.partition("+")
            nums, _, pre = core_.partition("-")
            a, b, c = [int(x) for x in nums.split(".")]
            ver = some(mk_version(IntV.const(a), IntV.const(b), IntV.const(c), StrV(BStr.lit(pre)), StrV(BStr.lit(build))))
        pk.append((StrV(BStr.lit(p["ns"])), StrV(BStr.lit(p["name"])), ver))
    return pk


def validate_translator(asts, res, seed):
    it = Interp(asts, dict(tighten="off"))
    ok = True
    # (a) heck::to_snake_case model, exhaustively on short strings over the version/name alphabet
    al = "ab1_-.+"
    strs = [""]
    for n in range(1, 5):
        strs += ["".join(t) for t in itertools.product(al, repeat=n)]
    rnd = random.Random(seed * 7919 + 27)
    for _ in range(300):
        strs.append("".join(rnd.choice("abz019_-.+") for _ in range(rnd.randint(5, 12))))
    nat = native_run([{"prop": "snake", "inputs": strs}])[0]["outputs"]
    bad = 0
    for s_, exp in zip(strs, nat):
        it.panics = []
        got = it.models.snake(BStr.lit(s_), {"line": 0}).concrete()
        if got != exp:
            bad += 1
            if bad <= 3:
                res.inconclusive.append("model validation: to_snake_case(%r): model %r, heck %r" % (s_, got, exp))
    res.extra["snake_model_validation"] = {"cases": len(strs), "mismatches": bad}
    ok = ok and bad == 0
    # (b) Version Display model and (c) the whole function, on seeded concrete resolves
    cases = []
    vers = [None, "1.0.0", "0.1.0", "0.2.0", "1.0.0-a.b", "1.0.0-a-b", "1.0.0+a", "1.0.0-a", "10.2.19-a1.1+1.a", "1.0.0--a", "1.0.0-a--b",
            "0.0.1-1", "0.0.1-0", "2.3.4+0.01"]
    names = ["a", "b", "ab", "a-b", "b-a", "abb"]
    for _ in range(200):
        n0 = rnd.choice(names)
        n1 = n0 if rnd.random() < 0.7 else rnd.choice(names)
        cases.append({"prop": "C27", "pkgs": [{"ns": "n", "name": n0, "version": rnd.choice(vers)},
                                             {"ns": "n" if rnd.random() < 0.9 else "m", "name": n1, "version": rnd.choice(vers)}]})
    natr = native_run(cases)
    mism = 0
    for case, nr in zip(cases, natr):
        it.panics = []
        outs = execute(it, concrete_pkgs(case))
        got = [o.concrete() for o in outs]
        if got != nr.get("names"):
            mism += 1
            if mism <= 3:
                res.inconclusive.append("translator validation mismatch on %s: interpreter %s native %s" % (case["pkgs"], got, nr))
    vs = [v for v in vers if v]
    natv = native_run([{"prop": "version", "inputs": vs}])[0]["outputs"]
    for v, nv in zip(vs, natv):
        pk = concrete_pkgs({"pkgs": [{"ns": "n", "name": "a", "version": v}]})
        disp = it.models.version_display(pk[0][2].payload["Some"][0], {"line": 0}).concrete()
        if disp != nv.get("ok"):
            mism += 1
            res.inconclusive.append("model validation: Version Display of %r: model %r, semver %r" % (v, disp, nv))
    res.extra["translator_validation"] = {"seeded_cases": len(cases), "version_display_cases": len(vs), "mismatches": mism}
    return ok and mism == 0


def run(ctx):
    tier, seed, dec = ctx["tier"], ctx["seed"], ctx["decider"]
    res = Result()
    B = bounds(tier)
    res.bounds = {"packages": "two packages in the same namespace",
                  "names": "valid kebab names (start with a letter, no leading/trailing/double hyphen) of length <= %d over {a,b,-}" % B["name_len"],
                  "versions": "absent, or MAJOR.MINOR.PATCH with each number in 0..%d, pre-release and build metadata each absent or "
                              "<= %d chars over {a,0,1,-,.} and valid per the SemVer grammar" % (B["num_hi"], B["id_len"])}
    res.outside_claim = ["more than two packages with the same name, longer names / identifiers, other characters",
                         "upper-case letters in pre-release / build identifiers (heck's case-boundary splitting is not modelled; "
                         "the model flags such inputs instead of guessing)",
                         "packages in different namespaces (the function does not look at them together)"]
    res.assumptions = ["package names are valid WIT kebab-case names",
                       "two packages are distinct iff their names differ or their Option<Version> differ (semver Eq, build metadata included)"]
    res.trusted_base = list(models.MODELS_DOC)
    res.functions = [(FILES[0], "pub fn name_package_module")]
    asts = load_asts(FILES)
    if not validate_translator(asts, res, seed):
        return res
    it = Interp(asts, dict(tighten="off"))
    inp = Inputs()
    pkgs = []
    P = []
    for i in range(2):
        name = inp.str("name%d" % i, B["name_len"], NAME_AL)
        hasv = inp.flag("hasv%d" % i)
        maj = inp.usize("maj%d" % i, B["num_hi"])
        mi = inp.usize("min%d" % i, B["num_hi"])
        pat = inp.usize("pat%d" % i, B["num_hi"])
        pre = inp.str("pre%d" % i, B["id_len"], ID_AL)
        bld = inp.str("bld%d" % i, B["id_len"], ID_AL)
        inp.cons.append(valid_kebab(name.b))
        inp.cons.append(valid_ident_list(pre.b, True))
        inp.cons.append(valid_ident_list(bld.b, False))
        ver = option(hasv, mk_version(maj, mi, pat, pre, bld))
        pkgs.append((StrV(BStr.lit("n")), name, ver))
        P.append(dict(name=name, hasv=hasv, maj=maj, min=mi, pat=pat, pre=pre, bld=bld))
    it.assume(inp.wf())
    outs = execute(it, pkgs)
    res.extra["functions_interpreted"] = sorted("%s:%s" % k for k in it.encoded)
    model_bound = And(*[Not(c) for c, r, w in it.panics if r.startswith("MODEL-BOUND")])
    other_panics = And(*[Not(c) for c, r, w in it.panics if not r.startswith("MODEL-BOUND")])

    # ---- encoding with inputs fixed vs native
    rnd = random.Random(seed * 104729 + 27)
    vl = []
    tries = 0
    while len(vl) < 40 and tries < 4000:
        tries += 1
        vals = {}
        for i in range(2):
            vals["name%d" % i] = rnd.choice(["a", "b", "ab", "a-b", "ba", "b-a"][: 6 if B["name_len"] >= 3 else 2])
            vals["hasv%d" % i] = rnd.randint(0, 1)
            for k in ("maj", "min", "pat"):
                vals["%s%d" % (k, i)] = rnd.randint(0, B["num_hi"])
            vals["pre%d" % i] = "".join(rnd.choice(ID_AL) for _ in range(rnd.randint(0, B["id_len"])))
            vals["bld%d" % i] = "".join(rnd.choice(ID_AL) for _ in range(rnd.randint(0, B["id_len"])))
        if all(py_valid_ident_list(vals["pre%d" % i], True) and py_valid_ident_list(vals["bld%d" % i], False) for i in range(2)):
            if len(vl) % 2 == 0:
                vals["name1"] = vals["name0"]
            vl.append(vals)
    nat = native_run([native_case(v) for v in vl])
    mism = 0
    for vals, nr in zip(vl, nat):
        pairs = inp.subst_pairs(vals)
        if not eval_bool(inp.wf(), pairs):
            mism += 1
            res.inconclusive.append("encoding validation: SemVer-valid input rejected by the input constraints: %s" % native_case(vals))
            continue
        got = [eval_str(o, pairs) for o in outs]
        if got != nr.get("names"):
            mism += 1
            res.inconclusive.append("encoding validation mismatch on %s: encoding %s native %s" % (native_case(vals)["pkgs"], got, nr))
    res.extra["encoding_validation"] = {"cases": len(vl), "mismatches": mism}
    if mism:
        return res

    def veq(a, b):
        same_some = And(a["hasv"], b["hasv"], Eq(a["maj"].term, b["maj"].term), Eq(a["min"].term, b["min"].term),
                        Eq(a["pat"].term, b["pat"].term), bstr.eq(a["pre"].b, b["pre"].b), bstr.eq(a["bld"].b, b["bld"].b))
        return Or(And(Not(a["hasv"]), Not(b["hasv"])), same_some)
    a, b = P
    names_eq = bstr.eq(a["name"].b, b["name"].b)
    distinct = Not(And(names_eq, veq(a, b)))
    goal = Implies(distinct, Not(bstr.eq(outs[0], outs[1])))
    nums_eq = And(Eq(a["maj"].term, b["maj"].term), Eq(a["min"].term, b["min"].term), Eq(a["pat"].term, b["pat"].term))
    pre_eq = bstr.eq(a["pre"].b, b["pre"].b)
    bld_eq = bstr.eq(a["bld"].b, b["bld"].b)
    both = And(a["hasv"], b["hasv"])
    shapes = [("names-differ", Not(names_eq)),
              ("versioned-vs-unversioned", Not(both)),
              ("numbers-differ", And(both, Not(nums_eq))),
              ("prerelease-differs-only", And(both, nums_eq, Not(pre_eq), bld_eq)),
              ("build-metadata-differs-only", And(both, nums_eq, pre_eq, Not(bld_eq))),
              ("prerelease-and-build-differ", And(both, nums_eq, Not(pre_eq), Not(bld_eq)))]

    def replay_fn(vals):
        case = native_case(vals)
        nat = native_run([case])[0]
        names = nat.get("names")
        distinct_in = (case["pkgs"][0]["name"], case["pkgs"][0]["version"]) != (case["pkgs"][1]["name"], case["pkgs"][1]["version"])
        rep = bool(names) and distinct_in and names[0] == names[1]
        return {"reproduced": rep, "native": nat, "replay": {"native_case": case},
                "what": "packages n:%s@%s and n:%s@%s both get module name %r"
                        % (case["pkgs"][0]["name"], case["pkgs"][0]["version"], case["pkgs"][1]["name"], case["pkgs"][1]["version"],
                           names[0] if names else None)}
    base = [inp.wf(), model_bound]
    hunt(dec, res, "C27", "distinct-module-names", base + [other_panics], goal, shapes, inp, replay_fn,
         "C27/rs2smt/name_package_module/distinct",
         sample="distinct (name, version) => distinct module name; names<=%d, numbers<=%d, identifiers<=%d"
                % (B["name_len"], B["num_hi"], B["id_len"]))

    def replay_panic(vals):
        case = native_case(vals)
        nat = native_run([case])[0]
        return {"reproduced": "panic" in nat, "native": nat, "replay": {"native_case": case}, "what": "%s -> %s" % (case, nat)}
    hunt(dec, res, "C27", "no-panic", base, other_panics, [], inp, replay_panic, "C27/rs2smt/name_package_module/panic",
         sample="no panic in name_package_module (%d panic sites)" % len([1 for _, r, _ in it.panics if not r.startswith("MODEL")]))
    # the model bound (no upper case) must not exclude anything inside the input alphabet
    res.obligations += 1
    v, _, note = dec.decide("model-bound", [inp.wf()], model_bound)
    if v == "unsat":
        res.discharged += 1
    else:
        res.inconclusive.append("the to_snake_case model bound is reachable within the input alphabet (%s %s)" % (v, note))
    if tier == "thorough":
        self_test(dec, res, "distinct-module-names", base, Implies(distinct, Not(Eq(outs[0].n, outs[1].n))))
    return res


def replay(path):
    d = json.load(open(path))
    case = d["native_case"]
    nat = native_run([case])[0]
    print("replay %s: packages=%s" % (path, json.dumps(case["pkgs"])))
    print("  native module names: %s" % nat.get("names", nat))
    names = nat.get("names") or [None, 1]
    p = case["pkgs"]
    bad = (p[0]["name"], p[0]["version"]) != (p[1]["name"], p[1]["version"]) and names[0] == names[1]
    print("  REPRODUCED (distinct packages, same module name)" if bad else "  NOT REPRODUCED")
    return 0 if bad else 1
