#!/bin/bash
# rs2smt mutation self-test helper: runs `check <PROP>` against a mutated COPY of /repo
# (VERIF_REPO), so that /repo itself and the other engines building from it are never touched.
# usage: selftest.sh <PROP> <file relative to repo> <python re pattern> <replacement> [tier]
set -e
PROP=$1; FILE=$2; PAT=$3; REP=$4; TIER=${5:-quick}
MUT=/verif/work/rs2smt/mutrepo
rm -rf $MUT; mkdir -p $MUT
(cd /repo && tar --exclude=./target --exclude=./.git -cf - .) | (cd $MUT && tar xf -)
python3 - "$MUT/$FILE" "$PAT" "$REP" <<'PY'
import re,sys
p,pat,rep=sys.argv[1:4]
s=open(p).read()
n=len(re.findall(pat,s,flags=re.S))
if n!=1:
    print("MUTATION PATTERN MATCHES %d TIMES"%n); sys.exit(9)
open(p,'w').write(re.sub(pat,rep,s,count=1,flags=re.S))
PY
diff -u /repo/$FILE $MUT/$FILE | sed -n 3,20p || true
# evidence / replays of the mutated run go to a scratch copy of the verdict only
set +e
mkdir -p /verif/work/rs2smt/selftest_keep
cp /verif/evidence/$PROP.json /verif/work/rs2smt/selftest_keep/$PROP.evidence.json 2>/dev/null
ls /verif/replays > /verif/work/rs2smt/selftest_keep/replays.before
VERIF_REPO=$MUT /verif/check $PROP --tier $TIER > /verif/work/rs2smt/selftest_$PROP.out 2>&1
rc=$?
grep -E "^(VIOLATION|KNOWN-FINDING|INCONCLUSIVE|RESULT|  role=|  what=)" /verif/work/rs2smt/selftest_$PROP.out | cut -c1-400
echo "exit=$rc"
for r in $(grep -oE "replay=\S+" /verif/work/rs2smt/selftest_$PROP.out | cut -d= -f2 | sort -u); do
  [ "$r" = "-" ] && continue
  echo "--- native replay of $r against the mutated copy:"; VERIF_REPO=$MUT /verif/check $PROP --replay $r | tail -3
done
# restore the evidence of the unmutated tree and move replay files created by this self-test away
cp /verif/work/rs2smt/selftest_keep/$PROP.evidence.json /verif/evidence/$PROP.json 2>/dev/null
mkdir -p /verif/work/rs2smt/selftest_replays
for f in $(ls /verif/replays); do
  grep -qx "$f" /verif/work/rs2smt/selftest_keep/replays.before || mv /verif/replays/$f /verif/work/rs2smt/selftest_replays/
done
