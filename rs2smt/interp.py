"""rs2smt: a symbolic interpreter for the Rust subset used by the small
string/collection helpers of wit-bindgen.

It is generic over the subset (expressions, let, if/else, if-let, let-else,
match, for over ranges / vectors / enumerate, while with unrolling and an
unwinding obligation, closures, early return/break/continue, `?`, struct
fields, &mut self), and interprets the JSON AST that `rs2smt-ast` (syn) dumps
from the *current* source files.  Method calls on std types are mapped to the
library models in `models.py`/`bstr.py` (the trusted base).  Anything else
raises Unsupported -> the check is inconclusive.

Control flow: both sides of a branch are executed on copies of the machine
state and merged with ite (state merging), so one run yields one term per
observable; path conditions are kept for panics, unwinding obligations and
bound checks.
"""
import z3
import bstr
from bstr import BStr, L, LB
from smtlib import (TRUE, FALSE, And, Or, Not, Ite, Eq, Ult, Ule, Add, Sub, bv, bvval, ZeroExt,
                    b2bv, is_t, is_f, Implies)

IW = 64  # usize


class Unsupported(Exception):
    def __init__(self, what, file="?", line=0):
        Exception.__init__(self, "UNSUPPORTED %s at %s:%s" % (what, file, line))
        self.what, self.file, self.line = what, file, line


class Inconclusive(Exception):
    pass


# ---------------------------------------------------------------- values
class Val:
    pass


class UnitV(Val):
    def __repr__(self):
        return "()"


UNIT = UnitV()


class IntV(Val):
    def __init__(self, term, hi=None):
        self.term = term
        v = bvval(term)
        self.hi = v if v is not None else hi  # static upper bound (None = unknown)

    @staticmethod
    def const(v):
        return IntV(bv(v, IW), v)

    def __repr__(self):
        return "Int(%s)" % self.term


class BoolV(Val):
    def __init__(self, term):
        self.term = term

    def __repr__(self):
        return "Bool(%s)" % self.term


class CharV(Val):
    def __init__(self, term):
        self.term = term


class StrV(Val):
    def __init__(self, b):
        self.b = b

    def __repr__(self):
        c = self.b.concrete()
        return "Str(%r)" % c if c is not None else "Str(<sym cap %d>)" % self.b.cap


class TupleV(Val):
    def __init__(self, items):
        self.items = list(items)


class StructV(Val):
    def __init__(self, ty, fields):
        self.ty = ty
        self.fields = dict(fields)


class EnumV(Val):
    """tag: BV8 index into `vnames`; payload[name] = list of Val or None (never built)"""

    def __init__(self, ty, vnames, tag, payload):
        self.ty, self.vnames, self.tag, self.payload = ty, vnames, tag, payload

    def is_variant(self, name):
        if name not in self.vnames:
            return FALSE
        return Eq(self.tag, bv(self.vnames.index(name), 8))


class VecV(Val):
    def __init__(self, n, elems):
        self.n = n          # BV LB
        self.elems = list(elems)


class SetV(Val):
    """HashSet as a guarded association list"""

    def __init__(self, entries=()):
        self.entries = list(entries)    # (guard, key Val)


class RefV(Val):
    """&mut place"""

    def __init__(self, frame, scope, var, path=()):
        self.frame, self.scope, self.var, self.path = frame, scope, var, tuple(path)

    def key(self):
        return (self.frame, self.scope, self.var, self.path)


class ClosureV(Val):
    def __init__(self, node, frame):
        self.node, self.frame = node, frame


class RangeV(Val):
    def __init__(self, lo, hi):
        self.lo, self.hi = lo, hi


class OpaqueV(Val):
    """a value the interpreted code only passes around (e.g. &Resolve)"""

    def __init__(self, name, data=None):
        self.name, self.data = name, data


OPTION = ["None", "Some"]
RESULT = ["Ok", "Err"]


def some(v):
    return EnumV("Option", OPTION, bv(1, 8), {"None": [], "Some": [v]})


def none():
    return EnumV("Option", OPTION, bv(0, 8), {"None": [], "Some": None})


def option(cond, v):
    return EnumV("Option", OPTION, Ite(cond, bv(1, 8), bv(0, 8)), {"None": [], "Some": [v]})


def ok(v):
    return EnumV("Result", RESULT, bv(0, 8), {"Ok": [v], "Err": None})


def err(v):
    return EnumV("Result", RESULT, bv(1, 8), {"Ok": None, "Err": [v]})


def mkstr(s):
    return StrV(BStr.lit(s))


def merge(c, a, b, where="?"):
    """ite(c, a, b) on values"""
    if a is b:
        return a
    if is_t(c):
        return a
    if is_f(c):
        return b
    if a is None:
        return b
    if b is None:
        return a
    if isinstance(a, UnitV) and isinstance(b, UnitV):
        return a
    if isinstance(a, IntV) and isinstance(b, IntV):
        hi = None if (a.hi is None or b.hi is None) else max(a.hi, b.hi)
        return IntV(Ite(c, a.term, b.term), hi)
    if isinstance(a, BoolV) and isinstance(b, BoolV):
        return BoolV(Ite(c, a.term, b.term))
    if isinstance(a, CharV) and isinstance(b, CharV):
        return CharV(Ite(c, a.term, b.term))
    if isinstance(a, StrV) and isinstance(b, StrV):
        return StrV(bstr.ite(c, a.b, b.b))
    if isinstance(a, TupleV) and isinstance(b, TupleV) and len(a.items) == len(b.items):
        return TupleV([merge(c, x, y, where) for x, y in zip(a.items, b.items)])
    if isinstance(a, StructV) and isinstance(b, StructV) and a.ty == b.ty:
        return StructV(a.ty, {k: merge(c, a.fields[k], b.fields[k], where) for k in a.fields})
    if isinstance(a, EnumV) and isinstance(b, EnumV) and a.ty == b.ty:
        pl = {}
        for vn in a.vnames:
            pa, pb = a.payload.get(vn), b.payload.get(vn)
            if pa is None:
                pl[vn] = pb
            elif pb is None:
                pl[vn] = pa
            else:
                pl[vn] = [merge(c, x, y, where) for x, y in zip(pa, pb)]
        return EnumV(a.ty, a.vnames, Ite(c, a.tag, b.tag), pl)
    if isinstance(a, VecV) and isinstance(b, VecV):
        m = max(len(a.elems), len(b.elems))
        el = []
        for i in range(m):
            x = a.elems[i] if i < len(a.elems) else None
            y = b.elems[i] if i < len(b.elems) else None
            el.append(merge(c, x, y, where))
        return VecV(Ite(c, a.n, b.n), el)
    if isinstance(a, SetV) and isinstance(b, SetV):
        k = 0
        while k < len(a.entries) and k < len(b.entries) and a.entries[k] is b.entries[k]:
            k += 1
        ent = list(a.entries[:k])
        ent += [(And(c, g), key) for g, key in a.entries[k:]]
        ent += [(And(Not(c), g), key) for g, key in b.entries[k:]]
        return SetV(ent)
    if isinstance(a, RefV) and isinstance(b, RefV) and a.key() == b.key():
        return a
    if isinstance(a, OpaqueV) and isinstance(b, OpaqueV) and a.name == b.name:
        return a
    if isinstance(a, ClosureV) and isinstance(b, ClosureV) and a.node is b.node:
        return a
    raise Unsupported("merge of %s and %s (%s)" % (type(a).__name__, type(b).__name__, where))


def val_eq(a, b):
    """structural equality (PartialEq)"""
    if isinstance(a, IntV) and isinstance(b, IntV):
        return Eq(a.term, b.term)
    if isinstance(a, BoolV) and isinstance(b, BoolV):
        return Eq(a.term, b.term)
    if isinstance(a, CharV) and isinstance(b, CharV):
        return Eq(a.term, b.term)
    if isinstance(a, StrV) and isinstance(b, StrV):
        return bstr.eq(a.b, b.b)
    if isinstance(a, UnitV) and isinstance(b, UnitV):
        return TRUE
    if isinstance(a, TupleV) and isinstance(b, TupleV) and len(a.items) == len(b.items):
        return And(*[val_eq(x, y) for x, y in zip(a.items, b.items)])
    if isinstance(a, EnumV) and isinstance(b, EnumV) and a.ty == b.ty:
        conj = [Eq(a.tag, b.tag)]
        for i, vn in enumerate(a.vnames):
            pa, pb = a.payload.get(vn), b.payload.get(vn)
            if pa and pb:
                conj.append(Implies(Eq(a.tag, bv(i, 8)), And(*[val_eq(x, y) for x, y in zip(pa, pb)])))
        return And(*conj)
    if isinstance(a, VecV) and isinstance(b, VecV):
        conj = [Eq(a.n, b.n)]
        for i in range(min(len(a.elems), len(b.elems))):
            conj.append(Implies(Ult(L(i), a.n), val_eq(a.elems[i], b.elems[i])))
        m = min(len(a.elems), len(b.elems))
        conj.append(Ule(a.n, L(m)))
        return And(*conj)
    raise Unsupported("equality of %s and %s" % (type(a).__name__, type(b).__name__))


# ---------------------------------------------------------------- machine state
class Frame:
    def __init__(self, fname):
        self.fname = fname
        self.scopes = [{}]
        self.ret = FALSE
        self.retval = None
        self.loops = []     # [brk, cont] flags per enclosing loop

    def copy(self):
        f = Frame(self.fname)
        f.scopes = [dict(s) for s in self.scopes]
        f.ret, f.retval = self.ret, self.retval
        f.loops = [list(l) for l in self.loops]
        return f


def merge_frames(c, a, b, lenient=False):
    """lenient: `a` is the continuation of a statement sequence and `b` the path
    that already left it (return/break/continue): a variable that `a` re-declared
    with another type (shadowing) is dead on `b`, so `a`'s value is kept"""
    f = Frame(a.fname)
    if len(a.scopes) != len(b.scopes) or len(a.loops) != len(b.loops):
        raise Unsupported("merge of frames with different shapes in %s" % a.fname)
    f.scopes = []
    for sa, sb in zip(a.scopes, b.scopes):
        sc = {}
        for k in sa:
            if k in sb:
                try:
                    sc[k] = merge(c, sa[k], sb[k], "variable `%s` in %s" % (k, a.fname))
                except Unsupported:
                    if not lenient:
                        raise
                    sc[k] = sa[k]
        f.scopes.append(sc)
    f.ret = Ite(c, a.ret, b.ret)
    f.retval = merge(c, a.retval, b.retval, "return value of %s" % a.fname)
    f.loops = [[Ite(c, x[0], y[0]), Ite(c, x[1], y[1])] for x, y in zip(a.loops, b.loops)]
    return f


class Interp:
    def __init__(self, asts, cfg=None):
        """asts: {file: [items]} as dumped by rs2smt-ast"""
        # tighten: "solver" = prove least static bounds by lemma queries; "clamp" = cut capacities
        # at cfg str_limit / int_limit and record a capacity obligation (discharged later by the
        # external solver); "off" = keep the static over-approximations
        self.cfg = dict(while_unroll=6, tighten="solver", tighten_min_cap=10, str_limit=None, int_limit=None)
        if cfg:
            self.cfg.update(cfg)
        self.fns = {}        # name -> (file, node)
        self.methods = {}    # (type, method) -> (file, node)
        self.trait_impls = {}  # (trait, type, method) -> (file, node)
        self.structs = {}
        self.enums = {}
        self.derives = {}
        self.tests = {}      # test fn name -> (file, node)
        for file, items in asts.items():
            for it in items:
                k = it["k"]
                if k == "Fn":
                    name = it["sig"]["name"]
                    if it.get("mod", "").endswith("tests"):
                        self.tests[name] = (file, it)
                    else:
                        self.fns[name] = (file, it)
                elif k == "Impl":
                    ty = it["self_ty"].split("<")[0].strip()
                    for f in it["fns"]:
                        if it["trait"]:
                            tr = it["trait"].replace(" ", "")
                            self.trait_impls[(tr, it["self_ty"].replace(" ", ""), f["sig"]["name"])] = (file, f)
                            self.methods.setdefault((ty, "<%s>::%s" % (tr, f["sig"]["name"])), (file, f))
                        else:
                            self.methods[(ty, f["sig"]["name"])] = (file, f)
                elif k == "Struct":
                    self.structs[it["name"]] = it
                    self.derives[it["name"]] = " ".join(it.get("attrs", []))
                elif k == "Enum":
                    self.enums[it["name"]] = it
                    self.derives[it["name"]] = " ".join(it.get("attrs", []))
        self.frames = []
        self.pc = []
        self.assumptions = []       # global assumptions (input well-formedness, harness assumptions)
        self.panics = []            # (cond, reason, where)
        self.unwind = []            # (cond, where): loop bound reached with the guard still true
        self.capacity = []          # (cond, what): a clamped capacity would be exceeded
        self.encoded = {}           # (file, fn name) -> (line, end_line)
        self.cur_file = "?"
        self.lemma_queries = 0
        self.lemma_s = 0.0
        self._solver = None
        self._solver_n = 0
        self._tight_cache = {}
        self.fresh_n = 0
        self.stubs = {}             # "path::to::fn" -> python callable(args) -> Val (harness-supplied uninterpreted functions)
        from models import Models
        self.models = Models(self)

    # ------------------------------------------------------------ helpers
    def unsupported(self, what, node=None):
        line = node.get("line", 0) if isinstance(node, dict) else 0
        raise Unsupported(what, self.cur_file, line)

    def pcond(self):
        return And(*self.pc)

    def assume(self, c):
        self.assumptions.append(c)

    def panic(self, cond, reason, node=None):
        c = And(self.pcond(), cond)
        if is_f(c):
            return
        line = node.get("line", 0) if isinstance(node, dict) else 0
        self.panics.append((c, reason, "%s:%s" % (self.cur_file, line)))

    def no_panic(self):
        return And(*[Not(c) for c, _, _ in self.panics])

    def no_unwind(self):
        return And(*[Not(c) for c, _ in self.unwind])

    def within_capacity(self):
        return And(*[Not(c) for c, _ in self.capacity])

    def clamp_int(self, v):
        lim = self.cfg["int_limit"]
        if lim is None or bvval(v.term) is not None or (v.hi is not None and v.hi <= lim):
            return v
        self.capacity.append((And(self.pcond(), z3.UGT(v.term, bv(lim, IW))), "integer > %d" % lim))
        return IntV(v.term, lim)

    def clamp_str(self, v):
        lim = self.cfg["str_limit"]
        b = v.b
        if lim is None or b.cap <= lim:
            return v
        self.capacity.append((And(self.pcond(), z3.UGT(b.n, L(lim))), "string longer than %d" % lim))
        return StrV(BStr(b.n, b.chars[:lim]))

    # in-process incremental solver: used only for *lemmas* (feasibility pruning
    # of loop unrolling and tightening of static capacities); each is a solver
    # verdict over all values and is counted in the evidence.
    def solver(self):
        if self._solver is None:
            self._solver = z3.SolverFor("QF_BV")
            self._solver.set("timeout", int(self.cfg.get("lemma_timeout_ms", 30000)))
            self._solver_n = 0
        while self._solver_n < len(self.assumptions):
            self._solver.add(self.assumptions[self._solver_n])
            self._solver_n += 1
        return self._solver

    def feasible(self, cond, model=False):
        """is assumptions /\\ no-panic-so-far /\\ pc /\\ cond satisfiable?  None = unknown"""
        import time
        c = And(self.pcond(), cond)
        if is_f(c):
            return (False, None) if model else False
        s = self.solver()
        t0 = time.time()
        r = s.check(c, self.no_panic())
        self.lemma_queries += 1
        self.lemma_s += time.time() - t0
        if r == z3.sat:
            return (True, s.model()) if model else True
        if r == z3.unsat:
            return (False, None) if model else False
        raise Inconclusive("lemma query returned unknown (%s)" % s.reason_unknown())

    def tighten_int(self, v):
        """least static upper bound of an IntV under the current path (solver-proven)"""
        if self.cfg["tighten"] == "clamp":
            return self.clamp_int(v)
        if bvval(v.term) is not None or self.cfg["tighten"] != "solver":
            return v
        key = ("i", v.term.get_id(), self.pcond().get_id(), len(self.panics))
        if key in self._tight_cache:
            return IntV(v.term, self._tight_cache[key])
        k = 0
        while True:
            sat, m = self.feasible(z3.UGT(v.term, bv(k, IW)), model=True)
            if not sat:
                break
            k = m.eval(v.term, True).as_long()
            if k > 4096:
                raise Inconclusive("integer not bounded by 4096")
        self._tight_cache[key] = k
        return IntV(v.term, k)

    def tighten_str(self, v):
        b = v.b
        if self.cfg["tighten"] == "clamp":
            return self.clamp_str(v)
        if b.cap < self.cfg["tighten_min_cap"] or bvval(b.n) is not None or self.cfg["tighten"] != "solver":
            return v
        key = ("s", b.n.get_id(), b.cap, self.pcond().get_id(), len(self.panics))
        if key in self._tight_cache:
            k = self._tight_cache[key]
        else:
            k = 0
            while True:
                viol = Or(z3.UGT(b.n, L(k)), *[Not(Eq(c, bstr.Z8)) for c in b.chars[k:]])
                sat, m = self.feasible(viol, model=True)
                if not sat:
                    break
                k2 = m.eval(b.n, True).as_long()
                k = max(k + 1, k2)
                if k >= b.cap:
                    k = b.cap
                    break
            self._tight_cache[key] = k
        if k >= b.cap:
            return v
        return StrV(BStr(b.n, b.chars[:k]))

    def tighten_val(self, v):
        if isinstance(v, StrV):
            return self.tighten_str(v)
        if isinstance(v, IntV):
            if v.hi is None or v.hi > 0:
                return self.tighten_int(v)
            return v
        if isinstance(v, StructV):
            return StructV(v.ty, {k: self.tighten_val(x) for k, x in v.fields.items()})
        if isinstance(v, TupleV):
            return TupleV([self.tighten_val(x) for x in v.items])
        return v

    def tighten_state(self):
        """tighten the static capacities of every live variable (sound: each
        new bound is proven by a solver query under the current path)"""
        if self.cfg["tighten"] == "off":
            return
        for fr in self.frames:
            for sc in fr.scopes:
                for k in list(sc.keys()):
                    sc[k] = self.tighten_val(sc[k])

    # ------------------------------------------------------------ state
    def snapshot(self):
        return [f.copy() for f in self.frames]

    def branch(self, c, f_then, f_else, where="branch"):
        if is_t(c):
            return f_then()
        if is_f(c):
            return f_else()
        s0 = self.frames
        self.frames = [f.copy() for f in s0]
        self.pc.append(c)
        v1 = f_then()
        st1 = self.frames
        self.pc.pop()
        self.frames = [f.copy() for f in s0]
        self.pc.append(Not(c))
        v2 = f_else()
        st2 = self.frames
        self.pc.pop()
        if len(st1) != len(st2):
            raise Unsupported("branches leave different call depths")
        self.frames = [merge_frames(c, a, b, lenient=(where == "sequence")) for a, b in zip(st1, st2)]
        return merge(c, v1, v2, where)

    @property
    def frame(self):
        return self.frames[-1]

    def lookup(self, name):
        fr = self.frame
        for si in range(len(fr.scopes) - 1, -1, -1):
            if name in fr.scopes[si]:
                return len(self.frames) - 1, si, fr.scopes[si][name]
        return None

    def bind(self, name, val):
        self.frame.scopes[-1][name] = val

    def read_ref(self, r):
        v = self.frames[r.frame].scopes[r.scope][r.var]
        for p in r.path:
            v = self.deref(v)
            v = self.project(v, p)
        return v

    def project(self, v, p):
        if isinstance(v, StructV):
            if p not in v.fields:
                raise Unsupported("no field `%s` on %s" % (p, v.ty))
            return v.fields[p]
        if isinstance(v, TupleV) and isinstance(p, int):
            return v.items[p]
        raise Unsupported("field `%s` of %s" % (p, type(v).__name__))

    def write_ref(self, r, newv):
        base = self.frames[r.frame].scopes[r.scope][r.var]
        if isinstance(base, RefV) and True:
            # variable holds a reference: write through it
            self.write_ref(RefV(base.frame, base.scope, base.var, base.path + r.path), newv)
            return
        self.frames[r.frame].scopes[r.scope][r.var] = self.update(base, r.path, newv)

    def update(self, v, path, newv):
        if not path:
            return newv
        p = path[0]
        if isinstance(v, RefV):
            self.write_ref(RefV(v.frame, v.scope, v.var, v.path + tuple(path)), newv)
            return v
        if isinstance(v, StructV):
            f = dict(v.fields)
            f[p] = self.update(f[p], path[1:], newv)
            return StructV(v.ty, f)
        if isinstance(v, TupleV):
            it = list(v.items)
            it[p] = self.update(it[p], path[1:], newv)
            return TupleV(it)
        raise Unsupported("assignment through %s" % type(v).__name__)

    def deref(self, v):
        while isinstance(v, RefV):
            v = self.read_ref(v)
        return v

    # ------------------------------------------------------------ calling
    def call_fn(self, file, node, args, self_val=None, name=None):
        """args: list of Val for the typed parameters (self excluded)"""
        sig = node["sig"]
        fname = name or sig["name"]
        self.encoded[(file, fname)] = (node["line"], node.get("end_line", node["line"]))
        if len(self.frames) > 40:
            raise Unsupported("recursion depth")
        saved_file = self.cur_file
        self.cur_file = file
        fr = Frame(fname)
        self.frames.append(fr)
        ai = 0
        for p in sig["inputs"]:
            if p.get("self"):
                self.bind("self", self_val)
            else:
                if ai >= len(args):
                    self.unsupported("call of %s with too few arguments" % fname, node)
                self.bind_pat_total(p["pat"], args[ai])
                ai += 1
        tail = self.exec_block(node["body"], new_scope=False)
        fr = self.frames.pop()
        self.cur_file = saved_file
        res = merge(fr.ret, fr.retval, tail, "result of %s" % fname)
        if res is None:
            res = UNIT
        self.check_no_dangling(res, len(self.frames))
        return res

    def check_no_dangling(self, v, depth):
        if isinstance(v, RefV) and v.frame >= depth:
            raise Unsupported("reference escaping its frame")
        if isinstance(v, (TupleV,)):
            for x in v.items:
                self.check_no_dangling(x, depth)
        if isinstance(v, StructV):
            for x in v.fields.values():
                self.check_no_dangling(x, depth)
        if isinstance(v, VecV):
            for x in v.elems:
                self.check_no_dangling(x, depth)
        if isinstance(v, EnumV):
            for p in v.payload.values():
                for x in (p or []):
                    self.check_no_dangling(x, depth)

    def call_method_user(self, ty, method, recv_place, recv_val, args):
        file, node = self.methods[(ty, method)]
        sig = node["sig"]
        selfp = sig["inputs"][0] if sig["inputs"] and sig["inputs"][0].get("self") else None
        if selfp is None:
            return self.call_fn(file, node, args, name="%s::%s" % (ty, method))
        if selfp["ref"] and selfp["mut"]:
            if recv_place is None:
                # temporary receiver: materialise it in the caller's frame
                self.fresh_n += 1
                nm = "$tmp%d" % self.fresh_n
                self.bind(nm, recv_val)
                recv_place = RefV(len(self.frames) - 1, len(self.frame.scopes) - 1, nm)
            sv = recv_place
        else:
            sv = self.deref(recv_val)
        return self.call_fn(file, node, args, self_val=sv, name="%s::%s" % (ty, method))

    # ------------------------------------------------------------ statements
    def flags(self):
        fr = self.frame
        fl = [fr.ret]
        if fr.loops:
            fl += fr.loops[-1]
        return Or(*fl)

    def exec_block(self, node, new_scope=True):
        if node["k"] != "Block":
            return self.eval(node)
        if new_scope:
            self.frame.scopes.append({})
        v = self.exec_stmts(node["stmts"], 0)
        if new_scope:
            self.frame.scopes.pop()
        return v

    def exec_stmts(self, stmts, i):
        last = UNIT
        while i < len(stmts):
            st = stmts[i]
            last = self.exec_stmt(st)
            i += 1
            fl = self.flags()
            if not is_f(fl) and i < len(stmts):
                if is_t(fl):
                    return None
                rest = i
                return self.branch(Not(fl), lambda: self.exec_stmts(stmts, rest), lambda: None, "sequence")
        if stmts and stmts[-1]["k"] == "ExprStmt" and not stmts[-1]["semi"]:
            return last
        if stmts and stmts[-1]["k"] == "ExprStmt" and last is None:
            return None     # the block ends in a diverging expression (return/break/continue/bail!): type `!`
        return UNIT

    def exec_stmt(self, st):
        k = st["k"]
        if k == "Let":
            if st["init"] is None:
                self.unsupported("let without initialiser", st)
            v = self.eval(st["init"])
            if st["else"] is not None:
                cond, binds = self.match_pat(st["pat"], v)
                self.branch(Not(cond), lambda: self.exec_block(st["else"]), lambda: None, "let-else")
                for n, x in binds.items():
                    self.bind(n, x)
            else:
                self.bind_pat_total(st["pat"], v)
            return UNIT
        if k == "ExprStmt":
            return self.eval(st["expr"])
        if k == "Unsupported":
            self.unsupported(st["what"] + " `" + st.get("text", "") + "`", st)
        self.unsupported("statement " + k, st)

    def bind_pat_total(self, pat, v):
        cond, binds = self.match_pat(pat, v)
        if not is_t(cond):
            self.unsupported("refutable pattern in irrefutable position", pat)
        for n, x in binds.items():
            self.bind(n, x)

    # ------------------------------------------------------------ patterns
    def match_pat(self, pat, v):
        k = pat["k"]
        if k == "PIdent":
            nm = pat["name"]
            dv = self.deref(v) if not isinstance(v, RefV) else None
            if nm[:1].isupper() and pat["sub"] is None:
                # an upper-case identifier pattern names a unit variant (None, or an imported variant)
                dv = self.deref(v)
                if isinstance(dv, EnumV) and nm in dv.vnames:
                    return dv.is_variant(nm), {}
                self.unsupported("identifier pattern `%s` (constant or unit variant?)" % nm, pat)
            b = {pat["name"]: v}
            if pat["sub"] is not None:
                c, b2 = self.match_pat(pat["sub"], v)
                b.update(b2)
                return c, b
            if pat["by_ref"] and pat["mut"]:
                self.unsupported("`ref mut` binding", pat)
            # an identifier may also name a unit enum variant / constant: not in this subset
            return TRUE, b
        if k == "PWild" or k == "PRest":
            return TRUE, {}
        if k == "PType":
            return self.match_pat(pat["pat"], v)
        if k == "PRef":
            return self.match_pat(pat["pat"], self.deref(v))
        v = self.deref_for_pattern(v, pat)
        if k == "PTuple":
            if not isinstance(v, TupleV) or len(v.items) != len(pat["elems"]):
                self.unsupported("tuple pattern against %s" % type(v).__name__, pat)
            conds, binds = [], {}
            for p, x in zip(pat["elems"], v.items):
                c, b = self.match_pat(p, x)
                conds.append(c)
                binds.update(b)
            return And(*conds), binds
        if k in ("PTupleStruct", "PPath", "PStruct"):
            vn = pat["path"][-1]
            if not isinstance(v, EnumV):
                self.unsupported("enum pattern `%s` against %s" % (vn, type(v).__name__), pat)
            if vn not in v.vnames:
                self.unsupported("pattern variant `%s` not in enum %s" % (vn, v.ty), pat)
            c = v.is_variant(vn)
            pl = v.payload.get(vn)
            if pl is None:
                return FALSE, {}
            binds = {}
            conds = [c]
            if k == "PTupleStruct":
                if len(pat["elems"]) != len(pl):
                    self.unsupported("pattern arity", pat)
                for p, x in zip(pat["elems"], pl):
                    c2, b = self.match_pat(p, x)
                    conds.append(c2)
                    binds.update(b)
            elif k == "PStruct":
                self.unsupported("struct-variant pattern", pat)
            return And(*conds), binds
        if k == "PLit":
            lv = self.eval(pat["lit"])
            return val_eq(v, lv), {}
        if k == "POr":
            conds = []
            for p in pat["cases"]:
                c, b = self.match_pat(p, v)
                if b:
                    self.unsupported("bindings in or-pattern", pat)
                conds.append(c)
            return Or(*conds), {}
        if k == "Unsupported":
            self.unsupported(pat["what"] + " `" + pat.get("text", "") + "`", pat)
        self.unsupported("pattern " + k, pat)

    def deref_for_pattern(self, v, pat):
        if isinstance(v, RefV):
            inner = self.read_ref(v)
            if isinstance(inner, (EnumV, TupleV, StructV)):
                # matching through &mut would bind references into the value
                self.unsupported("pattern match through `&mut`", pat)
            return self.deref(v)
        return v

    # ------------------------------------------------------------ expressions
    def eval_place(self, e):
        """RefV for a place expression rooted in a local variable, else None"""
        k = e["k"]
        if k == "Path" and len(e["path"]) == 1:
            r = self.lookup(e["path"][0])
            if r is None:
                return None
            fi, si, v = r
            if isinstance(v, RefV):
                return v
            return RefV(fi, si, e["path"][0])
        if k == "Field":
            p = self.eval_place(e["base"])
            if p is None:
                return None
            return RefV(p.frame, p.scope, p.var, p.path + (e["member"],))
        if k == "Unary" and e["op"] == "*":
            return self.eval_place(e["e"])
        return None

    def eval(self, e):
        k = e["k"]
        m = getattr(self, "e_" + k, None)
        if m is None:
            self.unsupported("expression kind " + k, e)
        return m(e)

    def e_Unsupported(self, e):
        self.unsupported(e["what"] + " `" + e.get("text", "") + "`", e)

    def e_Lit(self, e):
        t = e["t"]
        if t == "str":
            try:
                return mkstr(e["v"])
            except bstr.BoundExceeded as x:
                self.unsupported(str(x), e)
        if t == "char":
            if not (0 < ord(e["v"]) < 128):
                self.unsupported("non-ASCII char literal", e)
            return CharV(bv(ord(e["v"]), 8))
        if t == "byte":
            if not (0 < int(e["v"]) < 128):
                self.unsupported("non-ASCII byte literal", e)
            return CharV(bv(int(e["v"]), 8))
        if t == "int":
            if e.get("suffix") not in ("", "usize", "u32", "u64", None):
                self.unsupported("integer literal suffix " + str(e.get("suffix")), e)
            return IntV.const(int(e["v"]))
        if t == "bool":
            return BoolV(TRUE if e["v"] else FALSE)
        self.unsupported("literal", e)

    def e_Path(self, e):
        p = e["path"]
        if len(p) == 1:
            r = self.lookup(p[0])
            if r is not None:
                return r[2]
            if p[0] == "None":
                return none()
            self.unsupported("unknown name `%s`" % p[0], e)
        # Enum::UnitVariant
        if len(p) >= 2 and p[-2] in self.enums:
            return self.make_enum(p[-2], p[-1], [], e)
        self.unsupported("path `%s`" % "::".join(p), e)

    def make_enum(self, ty, variant, payload, node=None):
        en = self.enums[ty]
        vnames = [v["name"] for v in en["variants"]]
        if variant not in vnames:
            self.unsupported("unknown variant %s::%s" % (ty, variant), node)
        pl = {vn: None for vn in vnames}
        for v in en["variants"]:
            if not v["fields"]["fields"]:
                pl[v["name"]] = []
        pl[variant] = list(payload)
        return EnumV(ty, vnames, bv(vnames.index(variant), 8), pl)

    def e_Field(self, e):
        base = self.deref(self.eval(e["base"]))
        return self.project(base, e["member"])

    def e_Ref(self, e):
        if e["mut"]:
            p = self.eval_place(e["e"])
            if p is None:
                self.unsupported("&mut of a non-place expression", e)
            return p
        # shared reference: value semantics (no mutation can be observed through it)
        return self.eval(e["e"])

    def e_Unary(self, e):
        op = e["op"]
        v = self.deref(self.eval(e["e"]))
        if op == "*":
            return v
        if op == "!":
            if isinstance(v, BoolV):
                return BoolV(Not(v.term))
            self.unsupported("`!` on %s" % type(v).__name__, e)
        self.unsupported("unary " + op, e)

    def e_Binary(self, e):
        op = e["op"]
        if op in ("&&", "||"):
            l = self.deref(self.eval(e["l"]))
            if not isinstance(l, BoolV):
                self.unsupported("`%s` on non-bool" % op, e)
            if op == "&&":
                r = self.branch(l.term, lambda: self.deref(self.eval(e["r"])), lambda: BoolV(FALSE), "&&")
            else:
                r = self.branch(l.term, lambda: BoolV(TRUE), lambda: self.deref(self.eval(e["r"])), "||")
            return r
        if op in ("+=", "-=", "*="):
            place = self.eval_place(e["l"])
            if place is None:
                self.unsupported("compound assignment to non-place", e)
            cur = self.deref(self.read_ref(place))
            r = self.deref(self.eval(e["r"]))
            nv = self.arith(op[0], cur, r, e)
            self.write_ref(place, nv)
            return UNIT
        l = self.deref(self.eval(e["l"]))
        r = self.deref(self.eval(e["r"]))
        if op == "==":
            return BoolV(val_eq(l, r))
        if op == "!=":
            return BoolV(Not(val_eq(l, r)))
        if op in ("<", "<=", ">", ">="):
            if not (isinstance(l, IntV) and isinstance(r, IntV)):
                self.unsupported("comparison of %s" % type(l).__name__, e)
            a, b = l.term, r.term
            t = {"<": Ult(a, b), "<=": Ule(a, b), ">": Ult(b, a), ">=": Ule(b, a)}[op]
            return BoolV(t)
        if op in ("+", "-", "*"):
            return self.arith(op, l, r, e)
        self.unsupported("binary operator " + op, e)

    def arith(self, op, l, r, e):
        if not (isinstance(l, IntV) and isinstance(r, IntV)):
            self.unsupported("arithmetic on %s" % type(l).__name__, e)
        a, b = l.term, r.term
        if op == "+":
            hi = None if (l.hi is None or r.hi is None) else l.hi + r.hi
            if hi is None or hi >= 1 << IW:
                self.panic(Ult(Add(a, b), a), "attempt to add with overflow", e)
            return IntV(Add(a, b), hi)
        if op == "-":
            self.panic(Ult(a, b), "attempt to subtract with overflow", e)
            return IntV(Sub(a, b), l.hi)
        if op == "*":
            x, y = bvval(a), bvval(b)
            if x is not None and y is not None:
                return IntV.const(x * y)
            self.unsupported("symbolic multiplication", e)
        self.unsupported("arithmetic " + op, e)

    def e_Assign(self, e):
        place = self.eval_place(e["l"])
        if place is None:
            self.unsupported("assignment to non-place", e)
        v = self.eval(e["r"])
        self.write_ref(place, v)
        return UNIT

    def e_Block(self, e):
        return self.exec_block(e)

    def e_Tuple(self, e):
        if not e["elems"]:
            return UNIT
        return TupleV([self.eval(x) for x in e["elems"]])

    def e_If(self, e):
        c = e["cond"]
        if c["k"] == "LetCond":
            v = self.eval(c["e"])
            cond, binds = self.match_pat(c["pat"], v)

            def then():
                self.frame.scopes.append(dict(binds))
                r = self.exec_block(e["then"])
                self.frame.scopes.pop()
                return r
        else:
            cv = self.deref(self.eval(c))
            if not isinstance(cv, BoolV):
                self.unsupported("if condition of kind %s" % type(cv).__name__, e)
            cond = cv.term

            def then():
                return self.exec_block(e["then"])

        def els():
            if e["else"] is None:
                return UNIT
            return self.exec_block(e["else"]) if e["else"]["k"] == "Block" else self.eval(e["else"])
        return self.branch(cond, then, els, "if at line %s" % e["line"])

    def e_Match(self, e):
        v = self.eval(e["e"])
        arms = e["arms"]

        def go(i):
            if i >= len(arms):
                return None
            arm = arms[i]
            cond, binds = self.match_pat(arm["pat"], v)

            def body():
                self.frame.scopes.append(dict(binds))
                r = self.eval(arm["body"])
                self.frame.scopes.pop()
                return r
            if arm["guard"] is not None:
                def guarded():
                    self.frame.scopes.append(dict(binds))
                    g = self.deref(self.eval(arm["guard"]))
                    self.frame.scopes.pop()
                    return self.branch(g.term, body, lambda: go(i + 1), "match guard")
                return self.branch(cond, guarded, lambda: go(i + 1), "match")
            if i == len(arms) - 1:
                # rustc checked exhaustiveness: the last arm takes whatever is left
                if is_f(cond):
                    return None
                return body()
            return self.branch(cond, body, lambda: go(i + 1), "match at line %s" % e["line"])
        r = go(0)
        return r if r is not None else UNIT

    def e_Return(self, e):
        v = self.eval(e["e"]) if e["e"] is not None else UNIT
        self.frame.retval = v
        self.frame.ret = TRUE
        return None

    def e_Break(self, e):
        if not self.frame.loops:
            self.unsupported("break outside loop", e)
        self.frame.loops[-1][0] = TRUE
        return None

    def e_Continue(self, e):
        if not self.frame.loops:
            self.unsupported("continue outside loop", e)
        self.frame.loops[-1][1] = TRUE
        return None

    def e_Try(self, e):
        v = self.deref(self.eval(e["e"]))
        if not isinstance(v, EnumV) or v.ty not in ("Result", "Option"):
            self.unsupported("`?` on %s" % type(v).__name__, e)
        if v.ty == "Result":
            bad = v.is_variant("Err")
            good = v.payload.get("Ok")

            def ret():
                ev = v.payload["Err"][0] if v.payload.get("Err") else UNIT
                self.frame.retval = err(ev)
                self.frame.ret = TRUE
                return None
        else:
            bad = v.is_variant("None")
            good = v.payload.get("Some")

            def ret():
                self.frame.retval = none()
                self.frame.ret = TRUE
                return None
        self.branch(bad, ret, lambda: None, "?")
        return good[0] if good else UNIT

    def e_Closure(self, e):
        return ClosureV(e, len(self.frames) - 1)

    def call_closure(self, clo, args):
        """closures are inlined: run in a scope of the frame that created them"""
        node = clo.node
        if clo.frame != len(self.frames) - 1:
            raise Unsupported("closure called outside its defining frame", self.cur_file, node["line"])
        if len(node["inputs"]) != len(args):
            raise Unsupported("closure arity", self.cur_file, node["line"])
        self.frame.scopes.append({})
        for p, a in zip(node["inputs"], args):
            self.bind_pat_total(p, a)
        # a `return` inside a closure body would return from the closure: not in the subset
        r = self.eval(node["body"])
        self.frame.scopes.pop()
        return r if r is not None else UNIT

    def e_Range(self, e):
        lo = self.deref(self.eval(e["lo"])) if e["lo"] is not None else None
        hi = self.deref(self.eval(e["hi"])) if e["hi"] is not None else None
        if e["lim"] != "..":
            self.unsupported("inclusive range", e)
        return RangeV(lo, hi)

    def e_Index(self, e):
        base = self.deref(self.eval(e["e"]))
        idx = self.deref(self.eval(e["idx"]))
        return self.models.index(base, idx, e)

    def e_StructLit(self, e):
        name = e["path"][-1]
        if e["rest"] is not None:
            self.unsupported("struct update syntax", e)
        if name not in self.structs:
            self.unsupported("struct literal of unknown type `%s`" % name, e)
        fields = {}
        for f in e["fields"]:
            fields[f["member"]] = self.eval(f["e"])
        return StructV(name, fields)

    def e_Cast(self, e):
        self.unsupported("cast", e)

    def e_Array(self, e):
        el = [self.eval(x) for x in e["elems"]]
        return VecV(L(len(el)), el)

    # ---- loops
    def e_For(self, e):
        it = self.deref(self.eval(e["iter"]))
        fr = self.frame
        fr.loops.append([FALSE, FALSE])

        def iteration(guard, binder):
            def body():
                self.frame.scopes.append({})
                binder()
                self.exec_block(e["body"])
                self.frame.scopes.pop()
                self.frame.loops[-1][1] = FALSE     # continue ends here
                return None
            g = And(guard, Not(self.frame.loops[-1][0]), Not(self.frame.ret))
            self.branch(g, body, lambda: None, "for at line %s" % e["line"])
            self.tighten_state()

        if isinstance(it, RangeV):
            if it.lo is None or it.hi is None:
                self.unsupported("unbounded range in for", e)
            lo = bvval(it.lo.term)
            if lo is None:
                self.unsupported("symbolic range start", e)
            hi = self.tighten_int(it.hi)
            if hi.hi is None:
                self.unsupported("for over a range without a static bound", e)
            for i in range(lo, hi.hi):
                iv = IntV.const(i)
                iteration(Ult(bv(i, IW), hi.term), lambda iv=iv: self.bind_pat_total(e["pat"], iv))
        elif isinstance(it, VecV):
            for i, el in enumerate(it.elems):
                iteration(Ult(L(i), it.n), lambda el=el: self.bind_pat_total(e["pat"], el))
        else:
            self.unsupported("for over %s" % type(it).__name__, e)
        self.frame.loops.pop()
        return UNIT

    def e_While(self, e):
        K = self.cfg["while_unroll"]
        self.frame.loops.append([FALSE, FALSE])

        def step(k):
            cv = self.deref(self.eval(e["cond"]))
            if not isinstance(cv, BoolV):
                self.unsupported("while condition", e)
            g = And(cv.term, Not(self.frame.loops[-1][0]), Not(self.frame.ret))
            if is_f(g):
                return None
            if not self.feasible(g):
                return None
            if k >= K:
                # unwinding obligation: the guard must be unsatisfiable here
                self.unwind.append((And(self.pcond(), g), "%s:%s" % (self.cur_file, e["line"])))
                return None

            def body():
                self.exec_block(e["body"])
                self.frame.loops[-1][1] = FALSE
                step(k + 1)
                return None
            self.branch(g, body, lambda: None, "while at line %s" % e["line"])
            return None
        step(0)
        self.frame.loops.pop()
        return UNIT

    def e_Loop(self, e):
        self.unsupported("`loop`", e)

    # ---- calls
    def e_Call(self, e):
        f = e["func"]
        if f["k"] != "Path":
            fv = self.eval(f)
            if isinstance(fv, ClosureV):
                return self.call_closure(fv, [self.eval(a) for a in e["args"]])
            self.unsupported("call of a computed function", e)
        p = f["path"]
        name = p[-1]
        # local closure variable
        if len(p) == 1:
            r = self.lookup(name)
            if r is not None and isinstance(r[2], ClosureV):
                return self.call_closure(r[2], [self.eval(a) for a in e["args"]])
        args = [self.eval(a) for a in e["args"]]
        if len(p) == 1:
            if name == "Some":
                return some(args[0])
            if name == "Ok":
                return ok(args[0])
            if name == "Err":
                return err(args[0])
            if name in self.fns:
                file, node = self.fns[name]
                return self.call_fn(file, node, args)
        if len(p) >= 2:
            ty = p[-2]
            if ty in self.enums and any(v["name"] == name for v in self.enums[ty]["variants"]):
                return self.make_enum(ty, name, args, e)
            if (ty, name) in self.methods:
                file, node = self.methods[(ty, name)]
                sig = node["sig"]
                if sig["inputs"] and sig["inputs"][0].get("self"):
                    return self.call_method_user(ty, name, None, args[0], args[1:])
                return self.call_fn(file, node, args, name="%s::%s" % (ty, name))
            if name == "default" and ty in self.structs:
                return self.default_of(ty, e)
        if "::".join(p) in self.stubs:
            return self.stubs["::".join(p)](args)
        r = self.models.call_path(p, args, e)
        if r is not NotImplemented:
            return r
        self.unsupported("call of `%s`" % "::".join(p), e)

    def default_of(self, ty, node=None):
        if ty in self.structs:
            if "Default" not in self.derives.get(ty, ""):
                if (ty, "<Default>::default") in self.methods:
                    file, n = self.methods[(ty, "<Default>::default")]
                    return self.call_fn(file, n, [], name="%s::default" % ty)
                self.unsupported("Default for %s (no derive)" % ty, node)
            st = self.structs[ty]
            return StructV(ty, {f["name"]: self.default_of_type(f["ty"], node) for f in st["fields"]["fields"]})
        if (ty, "<Default>::default") in self.methods:
            file, n = self.methods[(ty, "<Default>::default")]
            return self.call_fn(file, n, [], name="%s::default" % ty)
        self.unsupported("Default for %s" % ty, node)

    def default_of_type(self, ty, node=None):
        t = ty.replace(" ", "")
        if t == "String":
            return mkstr("")
        if t in ("usize", "u32", "u64"):
            return IntV.const(0)
        if t == "bool":
            return BoolV(FALSE)
        if t.startswith("HashSet<"):
            return SetV()
        if t.startswith("Vec<"):
            return VecV(L(0), [])
        if t.startswith("Option<"):
            return none()
        if t in self.structs or t in self.enums:
            return self.default_of(t, node)
        self.unsupported("Default for type `%s`" % ty, node)

    def e_MethodCall(self, e):
        method = e["method"]
        place = self.eval_place(e["recv"])
        if place is not None:
            recv = self.deref(self.read_ref(place))
        else:
            rv = self.eval(e["recv"])
            if isinstance(rv, RefV):
                place = rv
            recv = self.deref(rv)
        # user-defined inherent / trait methods
        ty = getattr(recv, "ty", None)
        if isinstance(recv, (StructV, EnumV)) and ty is not None:
            if (ty, method) in self.methods:
                args = [self.eval(a) for a in e["args"]]
                return self.call_method_user(ty, method, place, recv, args)
            for (t2, m2), (file, node) in self.methods.items():
                if t2 == ty and m2.endswith(">::" + method):
                    args = [self.eval(a) for a in e["args"]]
                    return self.call_method_user(ty, m2, place, recv, args)
        args = [self.eval(a) for a in e["args"]]
        res = self.models.method(recv, method, args, e)
        if res is NotImplemented:
            self.unsupported("method `%s` on %s%s" % (method, type(recv).__name__,
                                                     " " + ty if ty else ""), e)
        newrecv, out = res
        if newrecv is not None and place is not None:
            self.write_ref(place, newrecv)
        # (a `&mut self` method on a temporary: the mutation is dropped with the temporary, as in Rust)
        return out

    def e_Macro(self, e):
        return self.models.macro(e)

    # ------------------------------------------------------------ entry points for harnesses
    def new_session(self):
        self.frames = [Frame("<harness>")]
        self.pc = []

    def set_var(self, name, v):
        self.frames[0].scopes[0][name] = v

    def get_var(self, name):
        return self.frames[0].scopes[0][name]

    def call(self, ty, method, recv_var, args):
        """call Type::method on the harness variable `recv_var`"""
        place = RefV(0, 0, recv_var) if recv_var is not None else None
        if ty is None:
            file, node = self.fns[method]
            return self.call_fn(file, node, args)
        if (ty, method) not in self.methods:
            raise Unsupported("no method %s::%s in the parsed source" % (ty, method))
        recv = self.deref(self.read_ref(place)) if place is not None else None
        return self.call_method_user(ty, method, place, recv, args)
