//! rs2smt-ast: parse Rust source files with syn and dump the subset of the AST
//! the rs2smt symbolic interpreter understands as JSON.  Anything outside the
//! subset is dumped as {"k":"Unsupported","what":...,"line":...} so that the
//! interpreter stops with `UNSUPPORTED <construct> at file:line` if (and only
//! if) execution reaches it.
use quote::ToTokens;
use serde_json::{json, Value};
use syn::spanned::Spanned;

fn line<T: Spanned>(t: &T) -> usize {
    t.span().start().line
}

fn toks<T: ToTokens>(t: &T) -> String {
    t.to_token_stream().to_string()
}

fn unsupported<T: Spanned + ToTokens>(what: &str, t: &T) -> Value {
    let mut s = toks(t);
    if s.len() > 80 {
        s.truncate(80);
    }
    json!({"k": "Unsupported", "what": what, "text": s, "line": line(t)})
}

fn path(p: &syn::Path) -> Value {
    let segs: Vec<Value> = p
        .segments
        .iter()
        .map(|s| Value::String(s.ident.to_string()))
        .collect();
    Value::Array(segs)
}

fn member(m: &syn::Member) -> Value {
    match m {
        syn::Member::Named(i) => Value::String(i.to_string()),
        syn::Member::Unnamed(i) => json!(i.index),
    }
}

fn lit(l: &syn::Lit) -> Value {
    match l {
        syn::Lit::Str(s) => json!({"k":"Lit","t":"str","v":s.value(),"line":line(l)}),
        syn::Lit::Char(c) => json!({"k":"Lit","t":"char","v":c.value().to_string(),"line":line(l)}),
        syn::Lit::Int(i) => {
            json!({"k":"Lit","t":"int","v":i.base10_digits(),"suffix":i.suffix(),"line":line(l)})
        }
        syn::Lit::Bool(b) => json!({"k":"Lit","t":"bool","v":b.value,"line":line(l)}),
        syn::Lit::Byte(b) => json!({"k":"Lit","t":"byte","v":b.value(),"line":line(l)}),
        _ => unsupported("literal", l),
    }
}

fn binop(op: &syn::BinOp) -> &'static str {
    use syn::BinOp::*;
    match op {
        Add(_) => "+",
        Sub(_) => "-",
        Mul(_) => "*",
        Div(_) => "/",
        Rem(_) => "%",
        And(_) => "&&",
        Or(_) => "||",
        Eq(_) => "==",
        Lt(_) => "<",
        Le(_) => "<=",
        Ne(_) => "!=",
        Ge(_) => ">=",
        Gt(_) => ">",
        AddAssign(_) => "+=",
        SubAssign(_) => "-=",
        MulAssign(_) => "*=",
        BitAnd(_) => "&",
        BitOr(_) => "|",
        BitXor(_) => "^",
        Shl(_) => "<<",
        Shr(_) => ">>",
        _ => "?",
    }
}

fn mac(m: &syn::Macro) -> Value {
    let name = m
        .path
        .segments
        .last()
        .map(|s| s.ident.to_string())
        .unwrap_or_default();
    let ln = line(m);
    if name == "matches" {
        struct M(syn::Expr, syn::Pat, Option<syn::Expr>);
        impl syn::parse::Parse for M {
            fn parse(input: syn::parse::ParseStream) -> syn::Result<Self> {
                let e: syn::Expr = input.parse()?;
                input.parse::<syn::Token![,]>()?;
                let p = syn::Pat::parse_multi_with_leading_vert(input)?;
                let g = if input.peek(syn::Token![if]) {
                    input.parse::<syn::Token![if]>()?;
                    Some(input.parse::<syn::Expr>()?)
                } else {
                    None
                };
                let _ = input.parse::<Option<syn::Token![,]>>();
                Ok(M(e, p, g))
            }
        }
        return match m.parse_body::<M>() {
            Ok(M(e, p, g)) => json!({"k":"Macro","name":name,"expr":expr(&e),"pat":pat(&p),
                "guard": g.as_ref().map(expr), "line": ln}),
            Err(_) => unsupported("macro matches!", m),
        };
    }
    let parser = syn::punctuated::Punctuated::<syn::Expr, syn::Token![,]>::parse_terminated;
    match m.parse_body_with(parser) {
        Ok(args) => {
            let a: Vec<Value> = args.iter().map(expr).collect();
            json!({"k":"Macro","name":name,"args":a,"line":ln})
        }
        Err(_) => unsupported("macro", m),
    }
}

fn block(b: &syn::Block) -> Value {
    let stmts: Vec<Value> = b.stmts.iter().map(stmt).collect();
    json!({"k":"Block","stmts":stmts,"line":line(b)})
}

fn stmt(s: &syn::Stmt) -> Value {
    match s {
        syn::Stmt::Local(l) => {
            let (init, els) = match &l.init {
                Some(i) => (
                    Some(expr(&i.expr)),
                    i.diverge.as_ref().map(|(_, e)| expr(e)),
                ),
                None => (None, None),
            };
            json!({"k":"Let","pat":pat(&l.pat),"init":init,"else":els,"line":line(s)})
        }
        syn::Stmt::Expr(e, semi) => {
            json!({"k":"ExprStmt","expr":expr(e),"semi":semi.is_some(),"line":line(s)})
        }
        syn::Stmt::Macro(m) => {
            json!({"k":"ExprStmt","expr":mac(&m.mac),"semi":m.semi_token.is_some(),"line":line(s)})
        }
        syn::Stmt::Item(i) => unsupported("nested item", i),
    }
}

fn pat(p: &syn::Pat) -> Value {
    let ln = line(p);
    match p {
        syn::Pat::Ident(i) => json!({"k":"PIdent","name":i.ident.to_string(),
            "by_ref":i.by_ref.is_some(),"mut":i.mutability.is_some(),
            "sub": i.subpat.as_ref().map(|(_, p)| pat(p)), "line": ln}),
        syn::Pat::Wild(_) => json!({"k":"PWild","line":ln}),
        syn::Pat::Tuple(t) => {
            let e: Vec<Value> = t.elems.iter().map(pat).collect();
            json!({"k":"PTuple","elems":e,"line":ln})
        }
        syn::Pat::TupleStruct(t) => {
            let e: Vec<Value> = t.elems.iter().map(pat).collect();
            json!({"k":"PTupleStruct","path":path(&t.path),"elems":e,"line":ln})
        }
        syn::Pat::Struct(s) => {
            let f: Vec<Value> = s
                .fields
                .iter()
                .map(|f| json!({"member": member(&f.member), "pat": pat(&f.pat)}))
                .collect();
            json!({"k":"PStruct","path":path(&s.path),"fields":f,"rest":s.rest.is_some(),"line":ln})
        }
        syn::Pat::Path(pp) => json!({"k":"PPath","path":path(&pp.path),"line":ln}),
        syn::Pat::Lit(l) => json!({"k":"PLit","lit":lit(&l.lit),"line":ln}),
        syn::Pat::Reference(r) => json!({"k":"PRef","pat":pat(&r.pat),"line":ln}),
        syn::Pat::Or(o) => {
            let c: Vec<Value> = o.cases.iter().map(pat).collect();
            json!({"k":"POr","cases":c,"line":ln})
        }
        syn::Pat::Type(t) => json!({"k":"PType","pat":pat(&t.pat),"ty":toks(&t.ty),"line":ln}),
        syn::Pat::Paren(pp) => pat(&pp.pat),
        syn::Pat::Rest(_) => json!({"k":"PRest","line":ln}),
        _ => unsupported("pattern", p),
    }
}

fn expr(e: &syn::Expr) -> Value {
    let ln = line(e);
    match e {
        syn::Expr::Lit(l) => lit(&l.lit),
        syn::Expr::Path(p) => {
            if p.qself.is_some() {
                return unsupported("qualified path", e);
            }
            json!({"k":"Path","path":path(&p.path),"line":ln})
        }
        syn::Expr::Field(f) => {
            json!({"k":"Field","base":expr(&f.base),"member":member(&f.member),"line":ln})
        }
        syn::Expr::MethodCall(m) => {
            let a: Vec<Value> = m.args.iter().map(expr).collect();
            let tf = m.turbofish.as_ref().map(toks);
            json!({"k":"MethodCall","recv":expr(&m.receiver),"method":m.method.to_string(),
                "args":a,"turbofish":tf,"line":line(&m.method)})
        }
        syn::Expr::Call(c) => {
            let a: Vec<Value> = c.args.iter().map(expr).collect();
            json!({"k":"Call","func":expr(&c.func),"args":a,"line":ln})
        }
        syn::Expr::Macro(m) => mac(&m.mac),
        syn::Expr::Binary(b) => {
            let op = binop(&b.op);
            if op == "?" {
                return unsupported("binary operator", e);
            }
            json!({"k":"Binary","op":op,"l":expr(&b.left),"r":expr(&b.right),"line":ln})
        }
        syn::Expr::Unary(u) => {
            let op = match u.op {
                syn::UnOp::Deref(_) => "*",
                syn::UnOp::Not(_) => "!",
                syn::UnOp::Neg(_) => "-",
                _ => return unsupported("unary operator", e),
            };
            json!({"k":"Unary","op":op,"e":expr(&u.expr),"line":ln})
        }
        syn::Expr::Reference(r) => {
            json!({"k":"Ref","mut":r.mutability.is_some(),"e":expr(&r.expr),"line":ln})
        }
        syn::Expr::Paren(p) => expr(&p.expr),
        syn::Expr::Group(g) => expr(&g.expr),
        syn::Expr::Block(b) => {
            if b.label.is_some() {
                return unsupported("labeled block", e);
            }
            block(&b.block)
        }
        syn::Expr::If(i) => {
            json!({"k":"If","cond":expr(&i.cond),"then":block(&i.then_branch),
                "else": i.else_branch.as_ref().map(|(_, e)| expr(e)), "line": ln})
        }
        syn::Expr::Let(l) => json!({"k":"LetCond","pat":pat(&l.pat),"e":expr(&l.expr),"line":ln}),
        syn::Expr::Match(m) => {
            let arms: Vec<Value> = m
                .arms
                .iter()
                .map(|a| {
                    json!({"pat": pat(&a.pat), "guard": a.guard.as_ref().map(|(_, g)| expr(g)),
                        "body": expr(&a.body), "line": line(a)})
                })
                .collect();
            json!({"k":"Match","e":expr(&m.expr),"arms":arms,"line":ln})
        }
        syn::Expr::ForLoop(f) => {
            if f.label.is_some() {
                return unsupported("labeled loop", e);
            }
            json!({"k":"For","pat":pat(&f.pat),"iter":expr(&f.expr),"body":block(&f.body),"line":ln})
        }
        syn::Expr::While(w) => {
            if w.label.is_some() {
                return unsupported("labeled loop", e);
            }
            json!({"k":"While","cond":expr(&w.cond),"body":block(&w.body),"line":ln})
        }
        syn::Expr::Loop(l) => {
            if l.label.is_some() {
                return unsupported("labeled loop", e);
            }
            json!({"k":"Loop","body":block(&l.body),"line":ln})
        }
        syn::Expr::Assign(a) => {
            json!({"k":"Assign","l":expr(&a.left),"r":expr(&a.right),"line":ln})
        }
        syn::Expr::Return(r) => json!({"k":"Return","e":r.expr.as_ref().map(|e| expr(e)),"line":ln}),
        syn::Expr::Break(b) => {
            if b.label.is_some() || b.expr.is_some() {
                return unsupported("break with label/value", e);
            }
            json!({"k":"Break","line":ln})
        }
        syn::Expr::Continue(c) => {
            if c.label.is_some() {
                return unsupported("labeled continue", e);
            }
            json!({"k":"Continue","line":ln})
        }
        syn::Expr::Closure(c) => {
            let ins: Vec<Value> = c.inputs.iter().map(pat).collect();
            json!({"k":"Closure","inputs":ins,"body":expr(&c.body),"line":ln})
        }
        syn::Expr::Tuple(t) => {
            let el: Vec<Value> = t.elems.iter().map(expr).collect();
            json!({"k":"Tuple","elems":el,"line":ln})
        }
        syn::Expr::Array(t) => {
            let el: Vec<Value> = t.elems.iter().map(expr).collect();
            json!({"k":"Array","elems":el,"line":ln})
        }
        syn::Expr::Struct(s) => {
            if s.qself.is_some() {
                return unsupported("qualified struct literal", e);
            }
            let f: Vec<Value> = s
                .fields
                .iter()
                .map(|f| json!({"member": member(&f.member), "e": expr(&f.expr)}))
                .collect();
            json!({"k":"StructLit","path":path(&s.path),"fields":f,
                "rest": s.rest.as_ref().map(|r| expr(r)), "line": ln})
        }
        syn::Expr::Index(i) => json!({"k":"Index","e":expr(&i.expr),"idx":expr(&i.index),"line":ln}),
        syn::Expr::Range(r) => {
            let lim = match r.limits {
                syn::RangeLimits::HalfOpen(_) => "..",
                syn::RangeLimits::Closed(_) => "..=",
            };
            json!({"k":"Range","lo":r.start.as_ref().map(|e| expr(e)),
                "hi":r.end.as_ref().map(|e| expr(e)),"lim":lim,"line":ln})
        }
        syn::Expr::Try(t) => json!({"k":"Try","e":expr(&t.expr),"line":ln}),
        syn::Expr::Cast(c) => json!({"k":"Cast","e":expr(&c.expr),"ty":toks(&c.ty),"line":ln}),
        _ => unsupported("expression", e),
    }
}

fn fn_sig(sig: &syn::Signature) -> Value {
    let ins: Vec<Value> = sig
        .inputs
        .iter()
        .map(|a| match a {
            syn::FnArg::Receiver(r) => json!({"self": true, "ref": r.reference.is_some(),
                "mut": r.mutability.is_some()}),
            syn::FnArg::Typed(t) => json!({"pat": pat(&t.pat), "ty": toks(&t.ty)}),
        })
        .collect();
    let out = match &sig.output {
        syn::ReturnType::Default => Value::Null,
        syn::ReturnType::Type(_, t) => Value::String(toks(t)),
    };
    json!({"name": sig.ident.to_string(), "inputs": ins, "output": out})
}

fn fields(f: &syn::Fields) -> Value {
    match f {
        syn::Fields::Named(n) => {
            let v: Vec<Value> = n
                .named
                .iter()
                .map(|f| json!({"name": f.ident.as_ref().unwrap().to_string(), "ty": toks(&f.ty)}))
                .collect();
            json!({"kind":"named","fields":v})
        }
        syn::Fields::Unnamed(u) => {
            let v: Vec<Value> = u.unnamed.iter().map(|f| json!({"ty": toks(&f.ty)})).collect();
            json!({"kind":"tuple","fields":v})
        }
        syn::Fields::Unit => json!({"kind":"unit","fields":[]}),
    }
}

fn attrs(a: &[syn::Attribute]) -> Vec<Value> {
    a.iter().map(|x| Value::String(toks(x))).collect()
}

fn items(its: &[syn::Item], modpath: &str, out: &mut Vec<Value>) {
    for it in its {
        let ln = line(it);
        match it {
            syn::Item::Fn(f) => {
                out.push(json!({"k":"Fn","mod":modpath,"sig":fn_sig(&f.sig),"body":block(&f.block),
                    "attrs":attrs(&f.attrs),"line":ln,"end_line":it.span().end().line}));
            }
            syn::Item::Impl(i) => {
                let tr = i.trait_.as_ref().map(|(_, p, _)| toks(p));
                let mut fns = vec![];
                for ii in &i.items {
                    if let syn::ImplItem::Fn(f) = ii {
                        fns.push(json!({"k":"Fn","sig":fn_sig(&f.sig),"body":block(&f.block),
                            "line":line(ii),"end_line":ii.span().end().line}));
                    }
                }
                out.push(json!({"k":"Impl","mod":modpath,"self_ty":toks(&i.self_ty),"trait":tr,
                    "fns":fns,"line":ln}));
            }
            syn::Item::Struct(s) => {
                out.push(json!({"k":"Struct","mod":modpath,"name":s.ident.to_string(),
                    "fields":fields(&s.fields),"attrs":attrs(&s.attrs),"line":ln}));
            }
            syn::Item::Enum(e) => {
                let vs: Vec<Value> = e
                    .variants
                    .iter()
                    .map(|v| json!({"name": v.ident.to_string(), "fields": fields(&v.fields)}))
                    .collect();
                out.push(json!({"k":"Enum","mod":modpath,"name":e.ident.to_string(),"variants":vs,
                    "attrs":attrs(&e.attrs),"line":ln}));
            }
            syn::Item::Mod(m) => {
                if let Some((_, content)) = &m.content {
                    let p = if modpath.is_empty() {
                        m.ident.to_string()
                    } else {
                        format!("{}::{}", modpath, m.ident)
                    };
                    items(content, &p, out);
                }
            }
            _ => {}
        }
    }
}

fn main() {
    let mut res = serde_json::Map::new();
    for f in std::env::args().skip(1) {
        let src = match std::fs::read_to_string(&f) {
            Ok(s) => s,
            Err(e) => {
                eprintln!("rs2smt-ast: cannot read {}: {}", f, e);
                std::process::exit(3);
            }
        };
        let file = match syn::parse_file(&src) {
            Ok(x) => x,
            Err(e) => {
                eprintln!("rs2smt-ast: parse error in {}: {} (line {})", f, e, e.span().start().line);
                std::process::exit(4);
            }
        };
        let mut out = vec![];
        items(&file.items, "", &mut out);
        res.insert(f.clone(), Value::Array(out));
    }
    println!("{}", serde_json::to_string(&Value::Object(res)).unwrap());
}
