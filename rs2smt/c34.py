"""C34  Test configuration is read from exactly the leading comment block
(crates/test/src/config.rs)

Part A (config-text).  Symbolic: file contents (any string up to N chars over
{'/', '#', '@', 'a', '=', space, newline}) and the comment marker (any non-empty
string up to 3 chars over {'/', '#', '@'}).  Real code: parse_test_config
interpreted up to the call of toml::from_str, which is an uninterpreted
function whose argument is the observable.  Oracle (character scan, written
from the statement): the text handed to the TOML parser consists of exactly
the characters of the leading lines that start with the marker, minus the
marker, joined by single newlines -- nothing from or after the first line that
does not start with the marker.

Part B (string-list).  Symbolic: an argument string (<= M chars over
{a, b, space, tab, newline}).  Real code: impl From<StringList> for Vec<String>.
Oracle: String(s) converts to the list of maximal non-whitespace runs of s;
List(v) converts to v.
"""
import json
import random
import z3
import bstr
from bstr import BStr, L, LB, Z8
from smtlib import (TRUE, FALSE, And, Or, Not, Ite, Eq, Ult, Ule, Add, Sub, Implies, bv, bvval, b2bv, is_t, is_f, ZeroExt)
from interp import (Interp, StrV, IntV, EnumV, StructV, VecV, OpaqueV, Unsupported, Inconclusive, ok, IW)
from core import Inputs, load_asts, native_run, Result, eval_bool, eval_str, eval_bv
from hunt import hunt, self_test
import models

FILES = ["crates/test/src/config.rs"]
AL_FILE = "/#@a= \n"
AL_MARK = "/#@"
AL_ARGS = "ab \t\n"


def bounds(tier):
    if tier == "quick":
        return dict(file_len=12, mark_len=3, arg_len=8)
    return dict(file_len=16, mark_len=3, arg_len=10)


def run_parse(it, contents, comment):
    """interpret parse_test_config; returns the BStr passed to toml::from_str and its guard"""
    it.new_session()
    seen = []

    def from_str(args):
        a = it.deref(args[0])
        if not isinstance(a, StrV):
            raise Unsupported("toml::from_str called with a non-string")
        seen.append((it.pcond(), a.b))
        return ok(OpaqueV("T"))
    it.stubs["toml::from_str"] = from_str
    it.call(None, "parse_test_config", None, [contents, comment])
    if len(seen) != 1:
        raise Unsupported("toml::from_str is called %d times in parse_test_config" % len(seen))
    return seen[0]


def run_from(it, list_val):
    it.new_session()
    key = None
    for (tr, selfty, m) in it.trait_impls:
        if m == "from" and tr == "From<StringList>":
            key = (tr, selfty, m)
    if key is None:
        raise Unsupported("impl From<StringList> for Vec<String> not found")
    file, fn = it.trait_impls[key]
    r = it.deref(it.call_fn(file, fn, [list_val], name="<Vec<String> as From<StringList>>::from"))
    if not isinstance(r, VecV):
        raise Unsupported("From<StringList> does not return a Vec")
    return r


def expected_config_text(contents, marker):
    """oracle: keep mask over the characters of `contents` (scan)"""
    c = contents.chars
    P = contents.cap
    mlen = marker.n
    valid = [Not(Eq(x, Z8)) for x in c]
    isnl = [bstr.ceq(x, "\n") for x in c]
    # line start flags and the column of every position
    starts = [TRUE if p == 0 else isnl[p - 1] for p in range(P)]
    # does the line starting at p start with the marker?
    def starts_with_marker(p):
        conj = []
        for j in range(marker.cap):
            inside = Ult(L(j), mlen)
            ch = c[p + j] if p + j < P else Z8
            conj.append(Implies(inside, And(Eq(ch, marker.chars[j]), Not(Eq(ch, Z8)))))
        return And(*conj)
    # block[p]: position p lies in a line of the leading marker block
    block = []
    col = []
    line_ok = None          # does the current line belong to the block?
    ccol = L(0)
    for p in range(P):
        if p == 0:
            line_ok = starts_with_marker(0)
            ccol = L(0)
        else:
            newline_before = isnl[p - 1]
            line_ok = Ite(newline_before, And(line_ok, starts_with_marker(p)), line_ok)
            ccol = Ite(newline_before, L(0), Add(ccol, L(1)))
        block.append(And(valid[p], line_ok))
        col.append(ccol)
    keep = []
    for p in range(P):
        nxt_in_block = And(block[p], starts_with_marker(p + 1), valid[p + 1]) if p + 1 < P else FALSE
        body = And(block[p], Not(isnl[p]), Not(Ult(col[p], mlen)))
        sep = And(block[p], isnl[p], nxt_in_block)
        keep.append(Or(body, sep))
    return bstr.compact(c, keep)


def py_expected(contents, marker):
    out = []
    for line in contents.split("\n") if contents else []:
        if line.startswith(marker):
            out.append(line[len(marker):])
        else:
            break
    # a trailing "" element produced by split after a final newline never starts with a non-empty marker
    return "\n".join(out)


def expected_words(s):
    """oracle: per position the index of the word it belongs to (scan)"""
    P = s.cap
    c = s.chars
    nonws = [And(Not(Eq(x, Z8)), Not(bstr.is_ws(x))) for x in c]
    wstart = [And(nonws[p], TRUE if p == 0 else Not(nonws[p - 1])) for p in range(P)]
    wno = []
    cnt = L(0)
    for p in range(P):
        cnt = Add(cnt, b2bv(wstart[p], LB))
        wno.append(cnt)         # 1-based index of the word containing p (if nonws)
    return nonws, wno, cnt


def validate_translator(asts, res, seed, B):
    it = Interp(asts, dict(tighten="off"))
    rnd = random.Random(seed * 7919 + 34)
    cases = []
    fixed = [("//@ a = 1\n//@ b = 2\n\n//@ c = 3\n", "//@"), ("", "//@"), ("//@\n", "//@"), ("//@x", "//@"), ("x\n//@ a", "//@"),
             ("# a\n#b\n  # c", "#"), ("//@ a\r\n//@ b\r\nrest", "//@"), ("//@a\n//@b", "//@"), ("//@a\n//@b\n", "//@"), ("//@a\n\n//@b\n", "//@")]
    for c_, m in fixed:
        cases.append({"prop": "C34", "contents": c_, "comment": m})
    pieces = ["//@", "#", "//", " a=1", "a", "=", " ", "\n", "\n", "@", "/"]
    for _ in range(120):
        cases.append({"prop": "C34", "contents": "".join(rnd.choice(pieces) for _ in range(rnd.randint(0, 8))),
                      "comment": rnd.choice(["//@", "#", "//", "/", "#@"])})
    argcases = []
    for _ in range(80):
        argcases.append({"prop": "C34L", "string": "".join(rnd.choice(["a", "b", "--x", " ", "  ", "\t", "\n"]) for _ in range(rnd.randint(0, 7)))})
    argcases.append({"prop": "C34L", "list": ["a b", "", " c"]})
    nat = native_run(cases + argcases)
    mism = 0
    for case, nr in zip(cases, nat[:len(cases)]):
        it.panics = []
        g, text = run_parse(it, StrV(BStr.lit(case["contents"])), StrV(BStr.lit(case["comment"])))
        live = [p for p in it.panics if not is_f(p[0])]
        got = text.concrete()
        if live or got != nr.get("config_text"):
            mism += 1
            if mism <= 3:
                res.inconclusive.append("translator validation mismatch on %r: interpreter %r (panics %s) native %r"
                                        % (case, got, [r for _, r, _ in live], nr))
    for case, nr in zip(argcases, nat[len(cases):]):
        it.panics = []
        if "string" in case:
            lv = it.make_enum("StringList", "String", [StrV(BStr.lit(case["string"]))])
        else:
            el = [StrV(BStr.lit(x)) for x in case["list"]]
            lv = it.make_enum("StringList", "List", [VecV(L(len(el)), el)])
        r = run_from(it, lv)
        n = bvval(r.n)
        got = [r.elems[i].b.concrete() for i in range(n)]
        if got != nr.get("list"):
            mism += 1
            if mism <= 3:
                res.inconclusive.append("translator validation mismatch on %r: interpreter %r native %r" % (case, got, nr))
    res.extra["translator_validation"] = {"parse_cases": len(cases), "stringlist_cases": len(argcases), "mismatches": mism}
    return mism == 0


def run(ctx):
    tier, seed, dec = ctx["tier"], ctx["seed"], ctx["decider"]
    res = Result()
    B = bounds(tier)
    res.bounds = {"file": "every string of length <= %d over {'/', '#', '@', 'a', '=', space, newline}" % B["file_len"],
                  "marker": "every non-empty string of length <= %d over {'/', '#', '@'}" % B["mark_len"],
                  "argument_string": "every string of length <= %d over {a, b, space, tab, newline}" % B["arg_len"],
                  "argument_list": "lists of <= 2 strings of length <= 3"}
    res.outside_claim = ["the TOML / serde layer (toml::from_str is an uninterpreted function of its argument)",
                         "\\r\\n line endings (str::lines drops the \\r; not in the alphabet), non-ASCII text, longer files",
                         "an empty comment marker"]
    res.assumptions = ["the comment marker is non-empty"]
    res.trusted_base = list(models.MODELS_DOC) + ["toml::from_str: uninterpreted (its argument is the observable); natively observed "
                                                  "through a recording wrapper crate substituted for `toml` when compiling config.rs unchanged"]
    res.functions = [(FILES[0], "pub fn parse_test_config"), (FILES[0], "impl From<StringList> for Vec<String>")]
    asts = load_asts(FILES)
    if not validate_translator(asts, res, seed, B):
        return res

    # ---------------- part A
    it = Interp(asts, dict(tighten="off"))
    inp = Inputs()
    contents = inp.str("file", B["file_len"], AL_FILE)
    marker = inp.str("marker", B["mark_len"], AL_MARK, minlen=1)
    it.assume(inp.wf())
    guard, text = run_parse(it, contents, marker)
    res.extra["functions_interpreted"] = sorted("%s:%s" % k for k in it.encoded)
    exp = expected_config_text(contents.b, marker.b)
    nopanic = it.no_panic()
    # encoding with inputs fixed vs native
    rnd = random.Random(seed * 104729 + 34)
    vl = [{"file": "".join(rnd.choice(AL_FILE + "\n/") for _ in range(rnd.randint(0, B["file_len"]))),
           "marker": "".join(rnd.choice(AL_MARK) for _ in range(rnd.randint(1, 2)))} for _ in range(40)]
    nat = native_run([{"prop": "C34", "contents": v["file"], "comment": v["marker"]} for v in vl])
    mism = 0
    for vals, nr in zip(vl, nat):
        pairs = inp.subst_pairs(vals)
        got = eval_str(text, pairs)
        if got != nr.get("config_text"):
            mism += 1
            res.inconclusive.append("encoding validation mismatch on %r: encoding %r native %r" % (vals, got, nr.get("config_text")))
        elif eval_str(exp, pairs) != py_expected(vals["file"], vals["marker"]):
            # the two independent formulations of the oracle (SMT scan / python) must agree with each other
            mism += 1
            res.inconclusive.append("oracle self-check mismatch on %r: SMT oracle %r python oracle %r"
                                    % (vals, eval_str(exp, pairs), py_expected(vals["file"], vals["marker"])))
    res.extra["encoding_validation"] = {"cases": len(vl), "mismatches": mism}
    if mism:
        return res

    def replay_a(vals):
        case = {"prop": "C34", "contents": vals["file"], "comment": vals["marker"]}
        nat = native_run([case])[0]
        want = py_expected(vals["file"], vals["marker"])
        bad = ("panic" in nat) or nat.get("config_text") != want
        return {"reproduced": bad, "native": nat, "replay": {"native_case": case, "expected_config_text": want},
                "what": "file=%r marker=%r: TOML parser received %r, the leading marker block is %r"
                        % (vals["file"], vals["marker"], nat.get("config_text", nat), want)}
    base = [inp.wf()]
    goal = And(guard, bstr.eq(text, exp))
    shapes = [("parser-not-reached", Not(guard)),
              ("extra-text", z3.UGT(text.n, exp.n)),
              ("missing-text", z3.ULT(text.n, exp.n)),
              ("altered-text", Eq(text.n, exp.n))]
    hunt(dec, res, "C34", "config-text", base + [nopanic], goal, shapes, inp, replay_a,
         "C34/rs2smt/parse_test_config/config-text",
         sample="text passed to toml::from_str == marker-stripped leading marker lines joined by \\n; file<=%d, marker<=%d"
                % (B["file_len"], B["mark_len"]))

    def replay_p(vals):
        case = {"prop": "C34", "contents": vals["file"], "comment": vals["marker"]}
        nat = native_run([case])[0]
        return {"reproduced": "panic" in nat, "native": nat, "replay": {"native_case": case}, "what": "%r -> %s" % (vals, nat)}
    hunt(dec, res, "C34", "no-panic", base, nopanic, [], inp, replay_p, "C34/rs2smt/parse_test_config/panic",
         sample="no panic (e.g. the slice &l[comment.len()..]) for any file/marker within the bound")
    if tier == "thorough":
        self_test(dec, res, "config-text", base + [nopanic], Eq(text.n, L(0)))

    # ---------------- part B
    it2 = Interp(asts, dict(tighten="off"))
    inp2 = Inputs()
    s = inp2.str("args", B["arg_len"], AL_ARGS)
    it2.assume(inp2.wf())
    r = run_from(it2, it2.make_enum("StringList", "String", [s]))
    nonws, wno, nwords = expected_words(s.b)
    conj = [Eq(r.n, nwords)]
    for k, el in enumerate(r.elems):
        # word k+1 = the kept characters with word number k+1
        want = bstr.compact(s.b.chars, [And(nonws[p], Eq(wno[p], L(k + 1))) for p in range(s.b.cap)])
        conj.append(Implies(Ult(L(k), r.n), bstr.eq(el.b, want)))
    # more words than the vector can hold would also be a mismatch
    conj.append(Ule(nwords, L(len(r.elems))))
    goal_b = And(*conj)

    def replay_b(vals):
        case = {"prop": "C34L", "string": vals["args"]}
        nat = native_run([case])[0]
        want = vals["args"].split()
        return {"reproduced": nat.get("list") != want, "native": nat, "replay": {"native_case": case, "expected_list": want},
                "what": "String(%r) converts to %r, its whitespace-separated words are %r" % (vals["args"], nat.get("list"), want)}
    shapes_b = [("word-count-differs", Not(Eq(r.n, nwords))), ("word-content-differs", Eq(r.n, nwords))]
    hunt(dec, res, "C34", "string-list-words", [inp2.wf(), it2.no_panic()], goal_b, shapes_b, inp2, replay_b,
         "C34/rs2smt/From<StringList>/words",
         sample="String(s).into() == maximal non-whitespace runs of s; |s|<=%d over {a,b,space,tab,newline}" % B["arg_len"])
    # List(v) -> v
    it3 = Interp(asts, dict(tighten="off"))
    inp3 = Inputs()
    e0 = inp3.str("e0", 3, AL_ARGS)
    e1 = inp3.str("e1", 3, AL_ARGS)
    nl = inp3.small("n", 2, hi=2)
    it3.assume(inp3.wf())
    vec = VecV(ZeroExt(nl, LB), [e0, e1])
    r3 = run_from(it3, it3.make_enum("StringList", "List", [vec]))
    goal_c = And(Eq(r3.n, vec.n), *[Implies(Ult(L(i), vec.n), bstr.eq(r3.elems[i].b, vec.elems[i].b)) if i < len(r3.elems) else FALSE
                                    for i in range(2)])

    def replay_c(vals):
        lst = [vals["e0"], vals["e1"]][: vals["n"]]
        case = {"prop": "C34L", "list": lst}
        nat = native_run([case])[0]
        return {"reproduced": nat.get("list") != lst, "native": nat, "replay": {"native_case": case, "expected_list": lst},
                "what": "List(%r) converts to %r" % (lst, nat.get("list"))}
    hunt(dec, res, "C34", "string-list-identity", [inp3.wf(), it3.no_panic()], goal_c, [], inp3, replay_c,
         "C34/rs2smt/From<StringList>/list-identity", sample="List(v).into() == v for |v|<=2")
    if tier == "thorough":
        self_test(dec, res, "string-list-words", [inp2.wf()], Ule(r.n, L(1)))
    return res


def replay(path):
    d = json.load(open(path))
    case = d["native_case"]
    nat = native_run([case])[0]
    print("replay %s: %s" % (path, json.dumps(case)))
    if case["prop"] == "C34":
        want = py_expected(case["contents"], case["comment"])
        print("  TOML parser received: %r" % nat.get("config_text", nat))
        print("  leading marker block: %r" % want)
        bad = ("panic" in nat) or nat.get("config_text") != want
    else:
        want = case["string"].split() if "string" in case else case["list"]
        print("  converted list: %r   expected: %r" % (nat.get("list"), want))
        bad = nat.get("list") != want
    print("  REPRODUCED" if bad else "  NOT REPRODUCED")
    return 0 if bad else 1
