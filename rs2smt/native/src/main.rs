//! Native replay / translator-validation harness of rs2smt: runs the real,
//! compiled functions of /repo (path dependency; config.rs is compiled
//! unchanged via #[path]) on concrete inputs given as JSON lines.
#![allow(dead_code)]
use serde_json::{json, Value};
use std::io::{BufRead, Write};
use std::panic::{catch_unwind, AssertUnwindSafe};

#[path = "/repo/crates/test/src/config.rs"]
mod config;

use wit_bindgen_core::{name_package_module, AsyncFilterSet, Ns, Source};
use wit_parser::{Function, FunctionKind, Package, PackageName, Resolve, WorldKey};

fn s(v: &Value) -> String {
    v.as_str().unwrap_or("").to_string()
}

fn c26(case: &Value) -> Value {
    let mut ns = Ns::default();
    let mut res = vec![];
    for op in case["ops"].as_array().unwrap() {
        let kind = op[0].as_str().unwrap();
        let name = op[1].as_str().unwrap();
        match kind {
            "insert" => match ns.insert(name) {
                Ok(()) => res.push(json!({"insert": "ok"})),
                Err(e) => res.push(json!({"insert": "err", "msg": e})),
            },
            "tmp" => res.push(json!({"tmp": ns.tmp(name)})),
            _ => res.push(json!({"bad_op": kind})),
        }
    }
    json!({ "res": res })
}

fn c25(case: &Value) -> Value {
    let mut src = Source::default();
    let mut outs = vec![];
    for op in case["ops"].as_array().unwrap() {
        let kind = op[0].as_str().unwrap();
        match kind {
            "push_str" => src.push_str(op[1].as_str().unwrap()),
            "push_str_literal" => src.push_str_literal(op[1].as_str().unwrap()),
            "indent" => src.indent(op[1].as_u64().unwrap() as usize),
            "deindent" => src.deindent(op[1].as_u64().unwrap() as usize),
            _ => return json!({"bad_op": kind}),
        }
        outs.push(Value::String(src.as_str().to_string()));
    }
    json!({"out": src.as_str(), "steps": outs})
}

fn c27(case: &Value) -> Value {
    let mut resolve = Resolve::default();
    let mut ids = vec![];
    for p in case["pkgs"].as_array().unwrap() {
        let version = match p["version"].as_str() {
            Some(v) => match semver::Version::parse(v) {
                Ok(v) => Some(v),
                Err(e) => return json!({"bad_version": v, "err": e.to_string()}),
            },
            None => None,
        };
        let id = resolve.packages.alloc(Package {
            name: PackageName {
                namespace: s(&p["ns"]),
                name: s(&p["name"]),
                version,
            },
            docs: Default::default(),
            interfaces: Default::default(),
            worlds: Default::default(),
        });
        ids.push(id);
    }
    let names: Vec<String> = ids.iter().map(|id| name_package_module(&resolve, *id)).collect();
    json!({ "names": names })
}

fn snake(case: &Value) -> Value {
    use heck::ToSnakeCase;
    let outs: Vec<String> = case["inputs"]
        .as_array()
        .unwrap()
        .iter()
        .map(|x| x.as_str().unwrap().to_snake_case())
        .collect();
    json!({ "outputs": outs })
}

fn version(case: &Value) -> Value {
    let outs: Vec<Value> = case["inputs"]
        .as_array()
        .unwrap()
        .iter()
        .map(|x| match semver::Version::parse(x.as_str().unwrap()) {
            Ok(v) => json!({"ok": v.to_string(), "major": v.major, "minor": v.minor, "patch": v.patch,
                "pre": v.pre.as_str(), "build": v.build.as_str()}),
            Err(e) => json!({"err": e.to_string()}),
        })
        .collect();
    json!({ "outputs": outs })
}

fn c34(case: &Value) -> Value {
    let contents = s(&case["contents"]);
    let comment = s(&case["comment"]);
    let _ = toml::take_last_text();
    let r: anyhow::Result<toml::Value> = config::parse_test_config(&contents, &comment);
    let text = toml::take_last_text();
    json!({"config_text": text, "toml_ok": r.is_ok()})
}

fn c34l(case: &Value) -> Value {
    let list = if let Some(st) = case["string"].as_str() {
        config::StringList::String(st.to_string())
    } else {
        config::StringList::List(
            case["list"].as_array().unwrap().iter().map(|x| s(x)).collect(),
        )
    };
    let v: Vec<String> = list.into();
    json!({ "list": v })
}

fn c17(case: &Value) -> Value {
    let mut set = AsyncFilterSet::default();
    for d in case["directives"].as_array().unwrap() {
        set.push(d.as_str().unwrap());
    }
    let display: Vec<String> = set.debug_opts().collect();
    // a resolve with one versioned package, so that an interface key exists for which
    // name_world_key ("a:b/i@1.2.3") and name_canonicalized_world_key ("a:b/i@1") differ
    let mut resolve = Resolve::default();
    let pkg = resolve
        .push_str("t.wit", "package a:b@1.2.3;\ninterface i { f: func(); }\n")
        .expect("wit");
    let iface_id = resolve.packages[pkg].interfaces["i"];
    let tid = resolve.types.alloc(wit_parser::TypeDef {
        name: None,
        kind: wit_parser::TypeDefKind::Type(wit_parser::Type::U8),
        owner: wit_parser::TypeOwner::None,
        docs: Default::default(),
        stability: Default::default(),
        span: Default::default(),
        external_id: None,
    });
    let versioned = WorldKey::Interface(iface_id);
    let names = json!({"name_world_key": resolve.name_world_key(&versioned),
        "name_canonicalized_world_key": resolve.name_canonicalized_world_key(&versioned)});
    let mut results = vec![];
    for c in case["calls"].as_array().unwrap() {
        let kind = match c["kind"].as_str() {
            Some("Freestanding") => FunctionKind::Freestanding,
            Some("AsyncFreestanding") => FunctionKind::AsyncFreestanding,
            Some("Method") => FunctionKind::Method(tid),
            Some("AsyncMethod") => FunctionKind::AsyncMethod(tid),
            Some("Static") => FunctionKind::Static(tid),
            Some("AsyncStatic") => FunctionKind::AsyncStatic(tid),
            Some("Constructor") => FunctionKind::Constructor(tid),
            _ => {
                if c["wit_async"].as_bool().unwrap_or(false) {
                    FunctionKind::AsyncFreestanding
                } else {
                    FunctionKind::Freestanding
                }
            }
        };
        let func = Function {
            name: s(&c["func"]),
            kind,
            params: vec![],
            result: None,
            docs: Default::default(),
            stability: Default::default(),
            span: Default::default(),
            external_id: None,
        };
        let key = if c["iface_versioned"].as_bool().unwrap_or(false) {
            Some(versioned.clone())
        } else {
            c["iface"].as_str().map(|i| WorldKey::Name(i.to_string()))
        };
        let r = set.is_async(&resolve, key.as_ref(), &func, c["import"].as_bool().unwrap());
        results.push(r);
    }
    let ens = set.ensure_all_used();
    json!({"results": results, "ensure_err": ens.is_err(),
        "ensure_msg": ens.err().map(|e| e.to_string()), "display": display, "names": names})
}

fn wit(case: &Value) -> Value {
    // does wit-parser accept these package names?  (validates the harness' kebab-name predicate)
    let outs: Vec<bool> = case["names"]
        .as_array()
        .unwrap()
        .iter()
        .map(|n| {
            let mut r = Resolve::default();
            r.push_str("t.wit", &format!("package n:{};\n", n.as_str().unwrap())).is_ok()
        })
        .collect();
    json!({ "ok": outs })
}

fn run(case: &Value) -> Value {
    match case["prop"].as_str().unwrap_or("") {
        "wit" => wit(case),
        "C26" => c26(case),
        "C25" => c25(case),
        "C27" => c27(case),
        "snake" => snake(case),
        "version" => version(case),
        "C34" => c34(case),
        "C34L" => c34l(case),
        "C17" => c17(case),
        other => json!({"bad_prop": other}),
    }
}

fn main() {
    std::panic::set_hook(Box::new(|_| {}));
    let stdin = std::io::stdin();
    let stdout = std::io::stdout();
    let mut out = stdout.lock();
    for line in stdin.lock().lines() {
        let line = line.unwrap();
        if line.trim().is_empty() {
            continue;
        }
        let case: Value = match serde_json::from_str(&line) {
            Ok(v) => v,
            Err(e) => {
                writeln!(out, "{}", json!({"bad_json": e.to_string()})).unwrap();
                continue;
            }
        };
        let r = catch_unwind(AssertUnwindSafe(|| run(&case)));
        let v = match r {
            Ok(v) => v,
            Err(p) => {
                let msg = if let Some(m) = p.downcast_ref::<String>() {
                    m.clone()
                } else if let Some(m) = p.downcast_ref::<&str>() {
                    m.to_string()
                } else {
                    "panic".to_string()
                };
                json!({"panic": msg})
            }
        };
        writeln!(out, "{}", v).unwrap();
    }
}
