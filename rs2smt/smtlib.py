"""Term-building helpers (z3py ASTs are used only as a hash-consed term DAG and
SMT-LIB2 pretty-printer; deciding is done on the emitted SMT-LIB2 text).

Smart constructors fold constants so that a run of the interpreter on
concrete inputs stays concrete (this is the 'concrete mode' used for
translator validation)."""
import z3

TRUE = z3.BoolVal(True)
FALSE = z3.BoolVal(False)


def is_t(x):
    return z3.is_true(x)


def is_f(x):
    return z3.is_false(x)


def And(*xs):
    out = []
    for x in xs:
        if isinstance(x, (list, tuple)):
            x = And(*x)
        if is_f(x):
            return FALSE
        if is_t(x):
            continue
        out.append(x)
    if not out:
        return TRUE
    if len(out) == 1:
        return out[0]
    return z3.And(*out)


def Or(*xs):
    out = []
    for x in xs:
        if isinstance(x, (list, tuple)):
            x = Or(*x)
        if is_t(x):
            return TRUE
        if is_f(x):
            continue
        out.append(x)
    if not out:
        return FALSE
    if len(out) == 1:
        return out[0]
    return z3.Or(*out)


def Not(x):
    if is_t(x):
        return FALSE
    if is_f(x):
        return TRUE
    if z3.is_not(x):
        return x.arg(0)
    return z3.Not(x)


def Implies(a, b):
    return Or(Not(a), b)


def Ite(c, a, b):
    if is_t(c):
        return a
    if is_f(c):
        return b
    if a.eq(b):
        return a
    if z3.is_bool(a):
        if is_t(a) and is_f(b):
            return c
        if is_f(a) and is_t(b):
            return Not(c)
        if is_t(a):
            return Or(c, b)
        if is_f(a):
            return And(Not(c), b)
        if is_t(b):
            return Or(Not(c), a)
        if is_f(b):
            return And(c, a)
    return z3.If(c, a, b)


def bv(v, w):
    return z3.BitVecVal(v & ((1 << w) - 1), w)


def bvval(t):
    """python int if t is a bit-vector numeral, else None"""
    if z3.is_bv_value(t):
        return t.as_long()
    return None


def Eq(a, b):
    if a.eq(b):
        return TRUE
    if z3.is_bv(a):
        x, y = bvval(a), bvval(b)
        if x is not None and y is not None:
            return TRUE if x == y else FALSE
    elif z3.is_bool(a):
        if is_t(a):
            return b
        if is_t(b):
            return a
        if is_f(a):
            return Not(b)
        if is_f(b):
            return Not(a)
    return a == b


def Ult(a, b):
    x, y = bvval(a), bvval(b)
    if x is not None and y is not None:
        return TRUE if x < y else FALSE
    if y == 0:
        return FALSE
    return z3.ULT(a, b)


def Ule(a, b):
    x, y = bvval(a), bvval(b)
    if x is not None and y is not None:
        return TRUE if x <= y else FALSE
    if x == 0:
        return TRUE
    return z3.ULE(a, b)


def Add(a, b):
    x, y = bvval(a), bvval(b)
    if x is not None and y is not None:
        return bv(x + y, a.size())
    if x == 0:
        return b
    if y == 0:
        return a
    return a + b


def Sub(a, b):
    x, y = bvval(a), bvval(b)
    if x is not None and y is not None:
        return bv(x - y, a.size())
    if y == 0:
        return a
    return a - b


def BvOr(a, b):
    x, y = bvval(a), bvval(b)
    if x is not None and y is not None:
        return bv(x | y, a.size())
    if x == 0:
        return b
    if y == 0:
        return a
    return a | b


def ZeroExt(t, w):
    """zero-extend / truncate t to width w (truncation only used when the
    static bound guarantees that no bits are lost)"""
    s = t.size()
    if s == w:
        return t
    v = bvval(t)
    if v is not None:
        return bv(v, w)
    if s < w:
        return z3.ZeroExt(w - s, t)
    return z3.Extract(w - 1, 0, t)


def Sum(ts, w):
    acc = bv(0, w)
    for t in ts:
        acc = Add(acc, t)
    return acc


def b2bv(c, w):
    return Ite(c, bv(1, w), bv(0, w))
