"""From extracted Items to proof obligations: translate the emitted expression
under the language's semantics (langs.py), build the canonical-ABI oracle
independently (this file, `canon_*`), and form the negated goal.

Canonical mapping (written from the Component Model canonical ABI:
lower_flat / lift_flat / the flat-variant coercion table):

  lower uN : zero-extend the N-bit value to i32 / i64
  lower sN : sign-extend
  lower f32/f64 : the same bits (NaN payloads included)
  lower char : its Unicode scalar value as i32
  lower bool : 0 / 1
  lift uN/sN from an ARBITRARY i32/i64 : low N bits, with the type's signedness
  lift bool : 0 -> false, 1 -> true; any other non-zero value -> true (spec) or a trap (abi.rs doc); never false
  lift char : identity on valid scalar values (others may trap)
  joined variant slot, lowering : payload core value zero-extended to the slot
  joined variant slot, lifting  : low bits of the slot (wrap), then reinterpret
"""
from __future__ import annotations

import dataclasses
import re

from . import terms as tm
from . import langs
from .langs import Unsupported, Val, LT, BOOL, F32, F64, CHAR, PTR

NBITS = {"bool": 1, "u8": 8, "s8": 8, "u16": 16, "s16": 16, "u32": 32, "s32": 32, "u64": 64, "s64": 64,
         "f32": 32, "f64": 64, "char": 32}
SIGNED = {"s8", "s16", "s32", "s64"}
JOINED_BITS = {"i32": 32, "i64": 64, "ptr": 32, "len": 32, "p64": 64}


@dataclasses.dataclass
class Obligation:
    item: object
    kind: str                 # main | info | roundtrip
    name: str
    decls: dict
    pre: object
    emitted: object
    expected: object
    trap: object
    in_lt: object = None
    out_lt: object = None
    note: str = ""
    # results
    verdicts: dict = dataclasses.field(default_factory=dict)
    status: str = "pending"   # holds | violated | inconclusive
    witness: dict | None = None
    detail: str = ""
    bad: object = None        # custom failure condition (default: traps, or emitted != expected)
    role_suffix: str = ""     # appended to the role key: a distinct failure class of the same expression

    def bad_term(self):
        if self.bad is not None:
            return self.bad
        return tm.bor(self.trap, tm.bnot(tm.eq(self.emitted, self.expected)))

    def negated_goal(self):
        return tm.band(self.pre, self.bad_term())

    def query(self):
        return (self.name, self.decls, self.negated_goal())


# --------------------------------------------------------------------------
# language set-up from the generated sources
# --------------------------------------------------------------------------
class LangFactory:
    """Creates a fresh Lang per expression (trap list is per evaluation) with the helper
    functions read from the generated sources attached."""

    def __init__(self, backend, extractor):
        self.backend = backend
        self.cls = langs.LANGS[backend]
        self.helpers = {}
        self.rust_impls = {}
        self.rust_fns = {}
        self.setup_notes = []
        self.setup_errors = []
        try:
            if backend == "moonbit":
                for name, wat in extractor.wasm_helpers().items():
                    try:
                        h = langs.wasm_func_helper(wat)
                        nargs = len(re.findall(r"\(param ", wat))
                        h(langs.MoonBit(), [Val(langs.MBT["Int"], tm.var("a%d" % k, 32)) for k in range(nargs)])   # dry run
                        self.helpers[name] = h
                        self.setup_notes.append("moonbit helper %s = %s" % (name, wat))
                    except (Unsupported, IndexError, ValueError):
                        pass        # helpers that are not pure i32 -> i32 functions are simply not available
            elif backend == "d":
                body = re.search(r"auto ref T reinterpretCast\(T, U\)\(auto ref U from\) @trusted if \(T\.sizeof == U\.sizeof\) \{\s*"
                                 r"union tmp \{ U from; T to; \}\s*return tmp\(from\)\.to;\s*\}", extractor.common)
                if body:
                    self.helpers["reinterpretCast"] = True
                    self.setup_notes.append("d: reinterpretCast(T,U) is the same-size union reinterpretation in wit/common.d")
                else:
                    self.setup_errors.append("d: reinterpretCast in wit/common.d does not have the expected union body")
            elif backend == "rust":
                self._setup_rust(extractor.rt_module())
        except Exception as e:  # noqa: BLE001 - any set-up failure makes dependent expressions inconclusive
            self.setup_errors.append("%s: helper set-up failed: %s" % (backend, e))

    def _setup_rust(self, rt):
        L = langs.Rust()
        for trait, meth in (("AsI32", "as_i32"), ("AsI64", "as_i64"), ("AsF32", "as_f32"), ("AsF64", "as_f64")):
            ret = {"as_i32": "i32", "as_i64": "i64", "as_f32": "f32", "as_f64": "f64"}[meth]
            generic = re.search(r"pub fn %s<T: %s>\(t: T\) -> %s \{\s*t\.%s\(\)\s*\}" % (meth, trait, ret, meth), rt)
            refimpl = re.search(r"impl<'a, T: Copy \+ %s> %s for &'a T \{\s*fn %s\(self\) -> %s \{\s*\(\*self\)\.%s\(\)\s*\}\s*\}"
                                % (trait, trait, meth, ret, meth), rt)
            if not generic or not refimpl:
                self.setup_errors.append("rust: generic `%s` wrapper / `&T` impl not in the expected form" % meth)
                continue
            for m in re.finditer(r"impl %s for (\w+) \{\s*(?:#\[inline\]\s*)?fn %s\(self\) -> (\w+) \{\s*(.*?)\s*\}\s*\}"
                                 % (trait, meth), rt, re.S):
                ty, rt_ty, body = m.group(1), m.group(2), m.group(3)
                try:
                    self.rust_impls[(meth, ty)] = (L.types[rt_ty], langs.parse(L, body))
                    self.setup_notes.append("rust: impl %s for %s { %s }" % (trait, ty, body))
                except (Unsupported, KeyError) as e:
                    self.setup_errors.append("rust: impl %s for %s: %s" % (trait, ty, e))
        for m in re.finditer(r"pub unsafe fn (bool_lift|char_lift)\((\w+): (\w+)\) -> (\w+) \{", rt):
            from .extract import match_brace
            b = m.end() - 1
            e = match_brace(rt, b)
            body = rt[b + 1:e - 1].strip()
            try:
                self.rust_fns[m.group(1)] = ([(m.group(2), L.types[m.group(3)])], L.types[m.group(4)], langs.parse(L, body))
                self.setup_notes.append("rust: fn %s(%s: %s) -> %s { %s }" % (m.group(1), m.group(2), m.group(3), m.group(4),
                                                                              " ".join(body.split())))
            except (Unsupported, KeyError) as e2:
                self.setup_errors.append("rust: fn %s: %s" % (m.group(1), e2))

    def new(self, **kw):
        L = self.cls(**kw) if kw else self.cls()
        L.helpers = dict(self.helpers)
        if self.backend == "rust":
            L.impls = self.rust_impls
            L.fns = self.rust_fns
        return L


def resolve_type(L, text) -> LT:
    t = text.strip()
    if L.name == "rust":
        m = re.match(r"^(?:::)?core::mem::MaybeUninit::<(\w+)>$", t)
        if m:
            t = m.group(1)     # MaybeUninit<u64> is modelled as its (initialised) u64 payload
    if L.name == "go" and t == "__ite":
        raise Unsupported("internal")
    p = langs.Parser(L, t)
    r = p.try_type()
    if not r or p.toks[r[1]][0] != "eof":
        raise Unsupported("%s: unknown type %r" % (L.name, text))
    return r[0]


def eval_item(factory, it, x, **langkw):
    """Evaluate the extracted expression with input term x; returns (Val after all sinks, trap term, in_lt, Lang)."""
    L = factory.new(**langkw)
    in_lt = resolve_type(L, it.in_type)
    if x.w != in_lt.w:
        raise Unsupported("input width mismatch")
    env = {it.in_name: Val(in_lt, x)}
    text = it.expr
    if L.name == "go" and text.startswith("__ite("):
        # statement form `var r T; if c { r = a } else { r = b }` folded by the extractor
        from .extract import split_top
        c, a, b = split_top(text[len("__ite("):-1])
        cv = L.eval(langs.parse(L, c), env)
        if cv.lt != BOOL:
            raise Unsupported("go: if condition is not bool")
        av, bv = L.eval(langs.parse(L, a), env), L.eval(langs.parse(L, b), env)
        av, bv = L.balance(av, bv)
        v = Val(av.lt, tm.ite(cv.term, av.term, bv.term))
    else:
        try:
            v = L.eval(langs.parse(L, text), env)
        except langs._TrapSignal:
            raise Unsupported("expression always panics")
    if L.name == "rust" and it.expr.startswith("::core::mem::MaybeUninit::new("):
        pass
    for s in it.sinks:
        v = L.implicit(v, resolve_type(L, s), "sink %s" % s)
    v = L.materialize(v)
    trap = tm.bor(*L.traps) if L.traps else tm.FALSE
    return v, trap, in_lt, L


# --------------------------------------------------------------------------
# the oracle
# --------------------------------------------------------------------------
def wit_pattern(t, x, lt):
    """(N-bit pattern of the WIT value held by language value x : lt, precondition that x is a valid value of t)."""
    n = NBITS[t]
    if t == "bool":
        if lt != BOOL:
            raise Unsupported("bool carried by %r" % lt)
        return x, tm.TRUE
    if t in ("f32", "f64"):
        if lt.kind != "float" or lt.bits != n:
            raise Unsupported("%s carried by %r" % (t, lt))
        return x, tm.TRUE
    if t == "char":
        if lt.bits != 32 or lt.kind not in ("char", "int"):
            raise Unsupported("char carried by %r" % lt)
        return x, langs.valid_scalar(x)
    if lt.kind != "int" or lt.bits < n:
        raise Unsupported("%s carried by %r" % (t, lt))
    if lt.bits == n:
        return x, tm.TRUE
    low = tm.extract(x, n - 1, 0)
    # a wider host type: the value must be in the range of t (the spec's lowering asserts it)
    back = tm.sext(low, lt.bits) if t in SIGNED else tm.zext(low, lt.bits)
    if (t in SIGNED) != lt.signed and t in SIGNED:
        raise Unsupported("signed %s carried by unsigned %r" % (t, lt))
    return low, tm.eq(back, x)


def canon_lower(t, x, in_lt, out_lt):
    """expected core value (bits of out_lt) and precondition"""
    pat, pre = wit_pattern(t, x, in_lt)
    n = NBITS[t]
    if t in ("f32", "f64"):
        if out_lt.kind != "float" or out_lt.bits != n:
            raise Unsupported("core slot for %s is %r" % (t, out_lt))
        return pat, pre
    if out_lt.kind not in ("int",) or out_lt.bits not in (32, 64):
        raise Unsupported("core slot for %s is %r" % (t, out_lt))
    want = 64 if t in ("u64", "s64") else 32
    if out_lt.bits != want:
        raise Unsupported("core slot for %s has %d bits" % (t, out_lt.bits))
    exp = tm.sext(pat, want) if t in SIGNED else tm.zext(pat, want)
    return exp, pre


def canon_lift(t, c, in_lt, out_lt):
    """expected language value (bits of out_lt) for an arbitrary core value c, and precondition"""
    n = NBITS[t]
    if t in ("f32", "f64"):
        if in_lt.kind != "float" or out_lt.kind != "float" or in_lt.bits != n or out_lt.bits != n:
            raise Unsupported("float lift %r -> %r" % (in_lt, out_lt))
        return c, tm.TRUE
    if in_lt.kind != "int" or in_lt.bits != (64 if t in ("u64", "s64") else 32):
        raise Unsupported("core type for %s is %r" % (t, in_lt))
    if t == "bool":
        if out_lt != BOOL:
            raise Unsupported("bool lifted into %r" % out_lt)
        return tm.extract(c, 0, 0), tm.cmp("ule", c, tm.const(1, c.w))
    if t == "char":
        if out_lt.bits != 32 or out_lt.kind not in ("char", "int"):
            raise Unsupported("char lifted into %r" % out_lt)
        return c, langs.valid_scalar(c)
    if out_lt.kind != "int" or out_lt.bits < n:
        raise Unsupported("%s lifted into %r" % (t, out_lt))
    low = tm.extract(c, n - 1, 0)
    if out_lt.bits > n and t in SIGNED and not out_lt.signed:
        raise Unsupported("signed %s lifted into unsigned %r" % (t, out_lt))
    return (tm.sext(low, out_lt.bits) if t in SIGNED else tm.zext(low, out_lt.bits)), tm.TRUE


def payload_bits(t, lt):
    n = NBITS[t]
    if t in ("f32", "f64"):
        ok = lt.kind == "float" and lt.bits == n
    else:
        ok = lt.kind == "int" and lt.bits == n
    if not ok:
        raise Unsupported("payload %s carried by %r" % (t, lt))
    return n


def slot_check(joined, lt):
    sw = JOINED_BITS[joined]
    if lt.kind not in ("int", "ptr") or lt.bits != sw:
        raise Unsupported("joined %s slot declared as %r" % (joined, lt))
    return sw


# --------------------------------------------------------------------------
# obligations
# --------------------------------------------------------------------------
def obligations_for(factory, it):
    """Returns a list of Obligation (main [+ info]); raises Unsupported."""
    if factory.setup_errors and it.backend in ("d", "rust"):
        # only expressions that need the missing helper fail later, through Unsupported
        pass
    L0 = factory.new()
    in_lt = resolve_type(L0, it.in_type)
    out_lt = resolve_type(L0, it.sinks[-1])
    x = tm.var("x", in_lt.w)
    key = "%s/%s/%s/%s" % (it.prop, it.backend, it.instr, it.ctx)
    if it.backend == "rust":
        modes = [("debug_assertions=on", {"debug_assertions": True}), ("debug_assertions=off", {"debug_assertions": False})]
    else:
        modes = [("", {})]
    per_mode = []
    for mode_name, kw in modes:
        obs = []
        v, trap, in_lt, L = eval_item(factory, it, x, **kw)
        if v.lt != out_lt:
            raise Unsupported("value of type %r reaches a sink of type %r" % (v.lt, out_lt))
        suffix = ("#" + mode_name) if mode_name else ""
        if it.prop == "C14":
            if it.sense == "lower":
                exp, pre = canon_lower(it.wit, x, in_lt, out_lt)
            else:
                exp, pre = canon_lift(it.wit, x, in_lt, out_lt)
            guard = tm.band(v.term.fp_guard(), trap.fp_guard())
            if guard is not tm.TRUE:
                pre = tm.band(pre, guard)
            obs.append(Obligation(it, "main", key + suffix, {"x": in_lt.w}, pre, v.term, exp, trap, in_lt, out_lt, mode_name))
            if guard is not tm.TRUE and in_lt.kind == "float" and out_lt.kind == "float":
                # floating-point conversions in the emitted expression: bit-exactness is stated for non-NaN inputs (above);
                # a NaN must still come out as a NaN (the canonical ABI may canonicalise payloads, never drop NaN-ness)
                obs.append(Obligation(it, "main", key + suffix + "#nan-stays-nan", {"x": in_lt.w}, tm.fp_isnan(x),
                                      tm.fp_isnan(v.term), tm.TRUE, trap, in_lt, out_lt, mode_name))
            if it.wit == "bool" and it.sense == "lift":
                # core values other than 0/1: the spec (convert_int_to_bool) lifts every non-zero i32 to true; the abi.rs
                # doc comment allows trapping.  Lifting a non-zero value to `false` has no source => violation.
                o2 = Obligation(it, "main", key + suffix + "#nonzero", {"x": in_lt.w},
                                tm.cmp("ult", tm.const(1, x.w), x), v.term, tm.TRUE, trap, in_lt, out_lt, mode_name)
                o2.bad = tm.band(tm.bnot(trap), tm.bnot(v.term))
                o2.role_suffix = "/noncanonical-nonzero-lifts-false"
                obs.append(o2)
        else:
            if it.sense == "lower":
                pw = payload_bits(it.pay_wit, in_lt)
                sw = slot_check(it.joined, out_lt)
                exp = tm.zext(x, sw)
            else:
                sw = slot_check(it.joined, in_lt)
                pw = payload_bits(it.pay_wit, out_lt)
                exp = tm.extract(x, pw - 1, 0)
            guard = tm.band(v.term.fp_guard(), trap.fp_guard())
            obs.append(Obligation(it, "main", key + suffix, {"x": in_lt.w}, guard, v.term, exp, trap, in_lt, out_lt, mode_name))
        per_mode.append(obs)
    if len(per_mode) == 2 and all(a.emitted.smt() == b.emitted.smt() and a.trap.smt() == b.trap.smt()
                                  for a, b in zip(per_mode[0], per_mode[1])):
        for o in per_mode[0]:
            o.name = o.name.replace("#debug_assertions=on", "")
            o.note = "identical in both debug_assertions modes"
        return per_mode[0]
    return [o for obs in per_mode for o in obs]


def roundtrip_obligation(factory, lo_it, li_it):
    """lift(lower(x)) == x for the payload bits (one obligation per shape)."""
    L0 = factory.new()
    in_lt = resolve_type(L0, lo_it.in_type)
    x = tm.var("x", in_lt.w)
    kw = {"debug_assertions": True} if lo_it.backend == "rust" else {}
    v1, trap1, _, _ = eval_item(factory, lo_it, x, **kw)
    slot_lt = resolve_type(L0, li_it.in_type)
    if v1.lt.bits != slot_lt.bits:
        raise Unsupported("lowered slot %r vs lifted slot %r" % (v1.lt, slot_lt))
    v2, trap2, _, _ = eval_item(factory, li_it, v1.term, **kw)
    name = "C04B/%s/%s+%s/roundtrip" % (lo_it.backend, lo_it.instr, li_it.instr)
    return Obligation(lo_it, "roundtrip", name, {"x": in_lt.w}, tm.TRUE, v2.term, x, tm.bor(trap1, trap2), in_lt, v2.lt,
                      "lift(%s) after lower(%s)" % (li_it.expr, lo_it.expr))
