"""Per-language expression grammars and integer semantics (the trusted base of
the translator route; the rules are tabulated in SEMANTICS.md).

parse(lang, text) -> AST;  Lang.eval(ast, env) -> Val(type, term).

Anything outside the supported subset raises Unsupported, which the engine
reports as *inconclusive* -- never as a violation and never silently.
"""
from __future__ import annotations

import re
from . import terms as tm


class Unsupported(Exception):
    pass


# --------------------------------------------------------------------------
# language-level types
# --------------------------------------------------------------------------
class LT:
    """kind: int | bool | float | char | ptr ; floats are carried as bit patterns."""
    __slots__ = ("kind", "bits", "signed", "name")

    def __init__(self, kind, bits, signed=False, name=None):
        self.kind, self.bits, self.signed, self.name = kind, bits, signed, name

    def __eq__(self, o):
        return isinstance(o, LT) and (self.kind, self.bits, self.signed) == (o.kind, o.bits, o.signed)

    def __hash__(self):
        return hash((self.kind, self.bits, self.signed))

    def __repr__(self):
        return self.name or "%s%d%s" % (self.kind, self.bits, "s" if self.signed else "u")

    @property
    def w(self):
        return 1 if self.kind == "bool" else self.bits


def I(bits, signed, name=None):
    return LT("int", bits, signed, name)


BOOL = LT("bool", 1, False, "bool")
F32 = LT("float", 32, False, "f32")
F64 = LT("float", 64, False, "f64")
CHAR = LT("char", 32, False, "char")
PTR = LT("ptr", 32, False, "ptr")  # wasm32


class Val:
    """A typed value.  lt is None for an untyped integer literal (value in .lit)."""
    __slots__ = ("lt", "term", "lit")

    def __init__(self, lt, term=None, lit=None):
        self.lt, self.term, self.lit = lt, term, lit

    def __repr__(self):
        return "Val(%r,%r)" % (self.lt, self.term if self.lt else self.lit)


# --------------------------------------------------------------------------
# tokenizer
# --------------------------------------------------------------------------
_TOK = re.compile(r"""
    (?P<ws>\s+)
  | (?P<num>0[xX][0-9a-fA-F_]+[a-zA-Z0-9_]*|[0-9][0-9_]*(?:\.[0-9]+)?[a-zA-Z0-9_]*)
  | (?P<str>"(?:[^"\\]|\\.)*")
  | (?P<id>[A-Za-z_$][A-Za-z0-9_$]*)
  | (?P<op>::|->|=>|==|!=|<=|>=|<<|>>|&&|\|\||[-+*/%&|^~!<>=?:.,;()\[\]{}@\#'])
""", re.X)


def tokenize(s):
    out, i = [], 0
    while i < len(s):
        m = _TOK.match(s, i)
        if not m:
            raise Unsupported("cannot tokenize at %r" % s[i:i + 20])
        i = m.end()
        if m.lastgroup == "ws":
            continue
        out.append((m.lastgroup, m.group()))
    out.append(("eof", ""))
    return out


_NUM = re.compile(r"^(0[xX][0-9a-fA-F_]+|[0-9][0-9_]*)([a-zA-Z][a-zA-Z0-9_]*)?$")


def parse_number(text):
    m = _NUM.match(text)
    if not m:
        raise Unsupported("non-integer literal %r" % text)
    return int(m.group(1).replace("_", ""), 0), (m.group(2) or "")


# --------------------------------------------------------------------------
# parser (one Pratt parser, language flags select the cast syntaxes)
# --------------------------------------------------------------------------
C_PREC = {"||": 1, "&&": 2, "|": 3, "^": 4, "&": 5, "==": 6, "!=": 6, "<": 7, "<=": 7, ">": 7, ">=": 7,
          "<<": 8, ">>": 8, "+": 9, "-": 9, "*": 10, "/": 10, "%": 10}
GO_PREC = {"||": 1, "&&": 2, "==": 3, "!=": 3, "<": 3, "<=": 3, ">": 3, ">=": 3, "+": 4, "-": 4, "|": 4, "^": 4,
           "*": 5, "/": 5, "%": 5, "<<": 5, ">>": 5, "&": 5}
RUST_PREC = {"||": 1, "&&": 2, "==": 3, "!=": 3, "<": 3, "<=": 3, ">": 3, ">=": 3, "|": 4, "^": 5, "&": 6,
             "<<": 7, ">>": 7, "+": 8, "-": 8, "*": 9, "/": 9, "%": 9}
# MoonBit: operator precedence is not part of the trusted base; mixing two
# different binary operators without parentheses is rejected (Unsupported).
MBT_PREC = dict(RUST_PREC)

TEMPLATE_CALLEES = {"bit_cast", "static_cast", "reinterpret_cast", "transmute", "cast"}


class Parser:
    def __init__(self, lang, text):
        self.L = lang
        self.toks = tokenize(text)
        self.i = 0
        self.text = text

    # -- token helpers
    def peek(self, k=0):
        return self.toks[min(self.i + k, len(self.toks) - 1)]

    def next(self):
        t = self.toks[self.i]
        self.i += 1
        return t

    def at(self, v):
        return self.peek()[1] == v and self.peek()[0] in ("op", "id")

    def eat(self, v):
        if self.at(v):
            self.i += 1
            return True
        return False

    def expect(self, v):
        if not self.eat(v):
            raise Unsupported("expected %r at token %d (%r) in %r" % (v, self.i, self.peek()[1], self.text))

    # -- types
    def try_type(self):
        """Try to parse a type at the current position; returns (LT, new_index) or None."""
        L = self.L
        j = self.i
        words = []
        toks = self.toks
        # rust pointer types
        if L.name == "rust" and toks[j][1] == "*" and toks[j + 1][1] in ("mut", "const"):
            j += 2
            k = j
            while toks[k][0] == "id" or toks[k][1] == "::":
                k += 1
            return PTR, k
        while True:
            k, v = toks[j]
            if k == "id" and v in ("const", "unsigned", "signed", "struct", "union"):
                words.append(v)
                j += 1
                continue
            if k == "id":
                # qualified names a::b / a.b
                name = v
                jj = j + 1
                while toks[jj][1] in ("::", ".") and toks[jj + 1][0] == "id":
                    name += toks[jj][1] + toks[jj + 1][1]
                    jj += 2
                words.append(name)
                j = jj
                break                      # one (possibly qualified) name after the qualifiers
            break
        if not words:
            return None
        base = " ".join(w for w in words if w != "const")
        lt = L.types.get(base)
        nptr = 0
        while toks[j][1] == "*" or (toks[j][0] == "id" and toks[j][1] == "const"):
            if toks[j][1] == "*":
                nptr += 1
            j += 1
        if nptr:
            if lt is None and base not in L.pointee_ok and not re.match(r"^[A-Za-z_][\w:.]*$", base):
                return None
            if not L.has_ptr_types:
                return None
            return PTR, j
        if lt is None:
            return None
        return lt, j

    # -- expressions
    def parse_expr(self, minp=0):
        lhs = self.parse_unary()
        first_op = None
        while True:
            k, v = self.peek()
            if k == "op" and v == "?" and self.L.has_ternary and minp <= 0:
                self.next()
                a = self.parse_expr(0)
                self.expect(":")
                b = self.parse_expr(0)
                lhs = ("cond", lhs, a, b)
                continue
            if k == "op" and v in self.L.prec and self.L.prec[v] >= max(minp, 1):
                # generic '<' could also be a template bracket -- handled in postfix
                p = self.L.prec[v]
                if self.L.name == "moonbit":
                    if first_op is not None and first_op != v:
                        raise Unsupported("moonbit: mixed binary operators without parentheses: %r" % self.text)
                    first_op = v
                self.next()
                rhs = self.parse_expr(p + 1)
                lhs = ("bin", v, lhs, rhs)
                continue
            break
        return lhs

    def parse_unary(self):
        L = self.L
        k, v = self.peek()
        if k == "op" and v in ("-", "!", "~"):
            self.next()
            return ("un", v, self.parse_unary())
        if k == "op" and v == "*" and L.has_deref:
            self.next()
            return ("deref", self.parse_unary())
        if k == "op" and v == "&" and L.has_deref:
            self.next()
            if L.name == "rust":
                if self.at("raw"):
                    self.next()
                if self.at("mut") or self.at("const"):
                    self.next()
            return ("addr", self.parse_unary())
        # D: cast(T) e
        if L.name == "d" and k == "id" and v == "cast" and self.peek(1)[1] == "(":
            save = self.i
            self.i += 2
            t = self.try_type()
            if t and self.toks[t[1]][1] == ")":
                self.i = t[1] + 1
                e = self.parse_unary()
                return self.postfix_as(("cast", t[0], e))
            self.i = save
            raise Unsupported("d: cast to unknown type in %r" % self.text)
        # C-style cast (T) e
        if L.c_casts and k == "op" and v == "(":
            save = self.i
            self.i += 1
            t = self.try_type()
            if t and self.toks[t[1]][1] == ")":
                nxt = self.toks[t[1] + 1]
                # `(T)` followed by something that starts an operand => cast
                if nxt[0] in ("id", "num") or nxt[1] in ("(", "-", "~", "!", "*", "&"):
                    self.i = t[1] + 1
                    e = self.parse_unary()
                    return ("cast", t[0], e)
            self.i = save
        e = self.parse_postfix(self.parse_primary())
        return self.postfix_as(e)

    def postfix_as(self, e):
        # Rust `e as T` binds tighter than any binary operator
        while self.L.name == "rust" and self.at("as"):
            self.next()
            t = self.try_type()
            if not t:
                raise Unsupported("rust: `as` with unknown type in %r" % self.text)
            self.i = t[1]
            e = ("cast", t[0], e)
        return e

    def parse_args(self, close=")"):
        args = []
        if self.eat(close):
            return args
        while True:
            args.append(self.parse_expr(0))
            if self.eat(","):
                if self.eat(close):
                    return args
                continue
            self.expect(close)
            return args

    def parse_targs(self):
        """<T, U> after a template callee; returns list of LT."""
        self.expect("<")
        ts = []
        while True:
            t = self.try_type()
            if not t:
                raise Unsupported("unknown template type argument in %r" % self.text)
            self.i = t[1]
            ts.append(t[0])
            if self.eat(","):
                continue
            self.expect(">")
            return ts

    def parse_primary(self):
        L = self.L
        k, v = self.next()
        if k == "op" and v == "::" and L.name == "rust" and self.peek()[0] == "id":
            k, v = self.next()          # absolute path ::core::...
        if k == "num":
            n, suf = parse_number(v)
            return ("num", n, suf)
        if k == "op" and v == "(":
            e = self.parse_expr(0)
            self.expect(")")
            return ("paren", e)
        if k == "id":
            if v in ("true", "false"):
                return ("boollit", v == "true")
            if v == "unchecked" and L.name == "csharp" and self.at("("):
                self.next()
                e = self.parse_expr(0)
                self.expect(")")
                return ("paren", e)
            if v == "if" and L.has_if_expr:
                c = self.parse_expr(0)
                self.expect("{")
                a = self.parse_expr(0)
                self.expect("}")
                self.expect("else")
                self.expect("{")
                b = self.parse_expr(0)
                self.expect("}")
                return ("cond", c, a, b)
            if v == "match" and L.name == "rust":
                scrut = self.parse_expr(0)
                self.expect("{")
                arms = []
                while not self.eat("}"):
                    pk, pv = self.next()
                    if pk == "num":
                        pat = ("num", parse_number(pv)[0])
                    elif pv in ("true", "false"):
                        pat = ("boollit", pv == "true")
                    elif pv == "_":
                        pat = ("wild",)
                    elif pk == "id":
                        pat = ("bind", pv)
                    else:
                        raise Unsupported("rust: match pattern %r" % pv)
                    self.expect("=>")
                    body = self.parse_expr(0)
                    self.eat(",")
                    arms.append((pat, body))
                return ("match", scrut, arms)
            if L.name == "rust" and self.at("!") and self.peek(1)[1] == "(":
                # macro call: only cfg!(debug_assertions) and panic!/unreachable!(..) are understood
                self.i += 2
                depth, inner = 1, []
                while depth:
                    tk, tv = self.next()
                    if tk == "eof":
                        raise Unsupported("unterminated macro call")
                    if tv == "(":
                        depth += 1
                    elif tv == ")":
                        depth -= 1
                    if depth:
                        inner.append(tv)
                if v == "cfg" and inner == ["debug_assertions"]:
                    return ("cfgdebug",)
                if v in ("panic", "unreachable"):
                    return ("panic",)
                raise Unsupported("rust macro %s!(..)" % v)
            if v == "unsafe" and L.name == "rust" and self.at("{"):
                self.next()
                e = self.parse_expr(0)
                self.expect("}")
                return ("paren", e)
            if v == "global" and L.name == "csharp" and self.at("::"):
                self.next()
                k2, v2 = self.next()
                return ("id", v2)
            # functional cast T(e): C++ and Go (and D constructors are not used)
            if L.func_casts:
                self.i -= 1
                t = self.try_type()
                if t and self.toks[t[1]][1] == "(" and t[0] is not None:
                    self.i = t[1] + 1
                    args = self.parse_args(")")
                    if len(args) != 1:
                        raise Unsupported("functional cast with %d args" % len(args))
                    return ("cast", t[0], args[0])
                self.i += 1
            return ("id", v)
        raise Unsupported("unexpected token %r in %r" % (v, self.text))

    def parse_postfix(self, e):
        L = self.L
        while True:
            k, v = self.peek()
            if k == "op" and v in (".", "::"):
                nk, nv = self.peek(1)
                if nk == "id":
                    self.i += 2
                    e = ("member", e, nv, v)
                    continue
                if v == "::" and nv == "<":  # rust turbofish
                    self.i += 1
                    ts = self.parse_targs()
                    e = ("targs", e, ts)
                    continue
                if nk == "num" and v == ".":  # tuple field
                    self.i += 2
                    e = ("member", e, nv, v)
                    continue
                raise Unsupported("dangling %r in %r" % (v, self.text))
            if k == "op" and v == "(":
                self.next()
                args = self.parse_args(")")
                e = ("call", e, args)
                continue
            if k == "op" and v == "!" and L.name == "d" and self.peek(1)[0] == "id":
                # D template instantiation  e.name!T
                self.i += 1
                t = self.try_type()
                if not t:
                    raise Unsupported("d: template argument in %r" % self.text)
                self.i = t[1]
                e = ("targs", e, [t[0]])
                continue
            if k == "op" and v == "<" and L.name == "cpp" and e[0] == "member" and e[2] in TEMPLATE_CALLEES:
                ts = self.parse_targs()
                e = ("targs", e, ts)
                continue
            if k == "op" and v == "[":
                raise Unsupported("indexing in %r" % self.text)
            return e


def parse(lang, text):
    p = Parser(lang, text)
    e = p.parse_expr(0)
    if p.peek()[0] != "eof":
        raise Unsupported("trailing tokens %r in %r" % (p.peek()[1], text))
    return e


def path_of(node):
    """Flatten id/member chains into a dotted path string, or None."""
    if node[0] == "id":
        return node[1]
    if node[0] == "member":
        b = path_of(node[1])
        return None if b is None else b + node[3] + node[2]
    return None


# --------------------------------------------------------------------------
# semantics
# --------------------------------------------------------------------------
class Lang:
    name = "?"
    types: dict = {}
    prec = C_PREC
    c_casts = False          # (T) e
    func_casts = False       # T(e)
    has_ternary = False
    has_if_expr = False
    has_deref = False
    has_ptr_types = False
    pointee_ok: set = set()
    int_default = I(32, True, "int")
    implicit_mode = "exact"  # exact | widen | any

    def __init__(self):
        self.helpers = {}     # helper functions whose bodies were read from source
        self.traps = []       # accumulated (condition) under which evaluation traps / is UB
        self.notes = []

    # ---- literals ----------------------------------------------------
    def lit_type(self, n, suf):
        return None

    def materialize(self, v: Val, want: LT | None = None) -> Val:
        if v.lt is not None:
            return v
        lt = want if (want is not None and want.kind in ("int", "ptr")) else self.int_default
        if lt.kind == "int":
            lo, hi = (-(1 << (lt.bits - 1)), (1 << (lt.bits - 1)) - 1) if lt.signed else (0, (1 << lt.bits) - 1)
            if not (lo <= v.lit <= hi):
                raise Unsupported("literal %d does not fit %r" % (v.lit, lt))
        return Val(lt, tm.const(v.lit, lt.bits))

    # ---- conversions -------------------------------------------------
    def int_conv(self, v: Val, to: LT) -> Val:
        """Integer -> integer: truncate, or extend by the SOURCE signedness."""
        return Val(to, tm.resize(v.term, to.bits, v.lt.signed))

    def explicit(self, v: Val, to: LT) -> Val:
        raise NotImplementedError

    def implicit(self, v: Val, to: LT, where="") -> Val:
        if v.lt is None:
            return self.materialize(v, to)
        if v.lt == to:
            return Val(to, v.term)
        if self.implicit_mode == "exact":
            raise Unsupported("%s: no implicit conversion %r -> %r (%s)" % (self.name, v.lt, to, where))
        if self.implicit_mode == "any":
            return self.explicit(v, to)
        if self.implicit_mode == "widen":
            if self.widening_ok(v.lt, to):
                return self.explicit(v, to)
            raise Unsupported("%s: implicit narrowing %r -> %r would not compile (%s)" % (self.name, v.lt, to, where))
        raise AssertionError

    def widening_ok(self, a: LT, b: LT) -> bool:
        return False

    def float_conv(self, v: Val, to: LT, float_to_int="trap"):
        """Value conversions involving a floating-point type (IEEE 754, round-to-nearest-even):
        float -> float of another width; integer/bool -> float; float -> integer (truncation toward zero; out of range or
        NaN: `float_to_int` = "trap" (undefined / unspecified in the language) or "sat" (saturating, NaN -> 0))."""
        s = v.lt
        if s.kind == "float" and to.kind == "float":
            return Val(to, tm.fpconv(v.term, to.bits))
        if s.kind in ("int", "bool") and to.kind == "float":
            t = v.term if s.kind == "int" else tm.zext(v.term, 32)
            return Val(to, tm.int2fp(t, s.kind == "int" and s.signed, to.bits))
        if s.kind == "float" and to.kind == "int":
            if float_to_int == "sat":
                return Val(to, tm.fp2int(v.term, to.bits, to.signed, "sat"))
            self.traps.append(tm.bnot(tm.fpinrange(v.term, to.bits, to.signed)))
            return Val(to, tm.fp2int(v.term, to.bits, to.signed, "raw"))
        raise Unsupported("%s: conversion %r -> %r" % (self.name, s, to))

    def reinterpret(self, v: Val, to: LT) -> Val:
        if v.lt.w != to.w:
            raise Unsupported("reinterpret between different sizes %r -> %r" % (v.lt, to))
        return Val(to, v.term)

    # ---- operators ---------------------------------------------------
    def promote(self, v: Val) -> Val:
        return v

    def balance(self, a: Val, b: Val):
        if a.lt is None and b.lt is None:
            a = self.materialize(a)
        if a.lt is None:
            a = self.materialize(a, b.lt)
        if b.lt is None:
            b = self.materialize(b, a.lt)
        if a.lt != b.lt:
            raise Unsupported("%s: operands of different types %r, %r" % (self.name, a.lt, b.lt))
        return a, b

    def binary(self, op, a: Val, b: Val) -> Val:
        if op in ("&&", "||"):
            if a.lt != BOOL or b.lt != BOOL:
                raise Unsupported("logical operator on non-bool")
            return Val(BOOL, (tm.band if op == "&&" else tm.bor)(a.term, b.term))
        a, b = self.balance(a, b)
        lt = a.lt
        if lt.kind == "float":
            raise Unsupported("floating-point arithmetic/comparison is not bit-level")
        if lt.kind not in ("int", "bool", "char", "ptr"):
            raise Unsupported("binary op on %r" % lt)
        x, y = a.term, b.term
        if op in ("==", "!="):
            r = tm.eq(x, y)
            return Val(BOOL, r if op == "==" else tm.bnot(r))
        if op in ("<", "<=", ">", ">="):
            s = "s" if lt.signed else "u"
            if op in (">", ">="):
                x, y = y, x
            return Val(BOOL, tm.cmp(s + ("lt" if op in ("<", ">") else "le"), x, y))
        if lt.kind != "int":
            raise Unsupported("arithmetic on %r" % lt)
        m = {"+": "add", "-": "sub", "*": "mul", "&": "and", "|": "or", "^": "xor"}
        if op in m:
            return Val(lt, tm.binop(m[op], x, y))
        if op in ("<<", ">>"):
            if not y.is_const() or y.val >= lt.bits:
                raise Unsupported("shift by non-constant or oversized amount")
            o = "shl" if op == "<<" else ("ashr" if lt.signed else "lshr")
            return Val(lt, tm.binop(o, x, y))
        raise Unsupported("operator %s" % op)

    def unary(self, op, a: Val) -> Val:
        if op == "!" and a.lt == BOOL:
            return Val(BOOL, tm.bnot(a.term))
        a = self.promote(self.materialize(a))
        if a.lt.kind != "int":
            raise Unsupported("unary %s on %r" % (op, a.lt))
        if op == "-":
            return Val(a.lt, tm.unop("neg", a.term))
        if op in ("~",) or (op == "!" and self.name == "rust"):
            return Val(a.lt, tm.unop("not", a.term))
        raise Unsupported("unary %s" % op)

    # ---- evaluation --------------------------------------------------
    def eval(self, n, env) -> Val:
        k = n[0]
        if k == "num":
            lt = self.lit_type(n[1], n[2])
            if lt is None:
                return Val(None, lit=n[1])
            return Val(lt, tm.const(n[1], lt.bits))
        if k == "boollit":
            return Val(BOOL, tm.TRUE if n[1] else tm.FALSE)
        if k == "paren":
            return self.eval(n[1], env)
        if k == "id":
            if n[1] in env:
                return env[n[1]]
            raise Unsupported("%s: unknown identifier %r" % (self.name, n[1]))
        if k == "cast":
            v = self.eval(n[2], env)
            if v.lt is None:
                v = self.materialize(v, n[1] if n[1].kind == "int" else None)
            return self.explicit(v, n[1])
        if k == "bin":
            return self.binary(n[1], self.eval(n[2], env), self.eval(n[3], env))
        if k == "un":
            return self.unary(n[1], self.eval(n[2], env))
        if k == "cond":
            c = self.eval(n[1], env)
            if c.lt != BOOL:
                c = self.truthy(c)
            n0 = len(self.traps)
            a = self.eval(n[2], env)
            n1 = len(self.traps)
            b = self.eval(n[3], env)
            for i in range(n0, n1):
                self.traps[i] = tm.band(c.term, self.traps[i])
            for i in range(n1, len(self.traps)):
                self.traps[i] = tm.band(tm.bnot(c.term), self.traps[i])
            if a.lt is None and b.lt is None:
                a, b = self.materialize(a), self.materialize(b)
            a, b = self.balance(a, b)
            return Val(a.lt, tm.ite(c.term, a.term, b.term))
        if k == "match":
            return self.eval_match(n, env)
        if k == "panic":
            raise _TrapSignal()
        if k == "deref":
            return self.eval(n[1], env)      # values, not places: *(&x) == x
        if k == "addr":
            return self.eval(n[1], env)
        if k == "call":
            return self.eval_call(n, env)
        if k == "member":
            p = path_of(n)
            if p is not None and p in env:
                return env[p]
            return self.member(self.eval(n[1], env), n[2])
        raise Unsupported("%s: cannot evaluate %r" % (self.name, k))

    def truthy(self, c: Val) -> Val:
        raise Unsupported("%s: non-bool condition" % self.name)

    def member(self, v, name):
        raise Unsupported("%s: member .%s" % (self.name, name))

    def eval_match(self, n, env):
        raise Unsupported("match")

    def eval_call(self, n, env) -> Val:
        callee, args = n[1], n[2]
        targs = None
        if callee[0] == "targs":
            targs = callee[2]
            callee = callee[1]
        p = path_of(callee)
        # method call on a value:  <expr>.name(args)  where the root is not a pure path or is a variable
        if callee[0] == "member":
            root = callee[1]
            rp = path_of(root)
            is_value = rp is None or rp in env
            if is_value and callee[3] == ".":
                obj = self.eval(root, env)
                return self.method(obj, callee[2], targs, [self.eval(a, env) for a in args], env)
        if p is None:
            raise Unsupported("%s: call of a computed callee" % self.name)
        return self.call(p, targs, [self.eval(a, env) for a in args], env)

    def call(self, name, targs, args, env) -> Val:
        if name in self.helpers:
            return self.helpers[name](self, args)
        raise Unsupported("%s: unknown function %s" % (self.name, name))

    def method(self, obj, name, targs, args, env) -> Val:
        raise Unsupported("%s: unknown method .%s on %r" % (self.name, name, obj.lt))


# ---- C-family helpers -------------------------------------------------
def _c_explicit(self, v: Val, to: LT) -> Val:
    s = v.lt
    if s == to:
        return Val(to, v.term)
    if to.kind == "bool":
        if s.kind in ("int", "ptr", "char"):
            return Val(BOOL, tm.bnot(tm.eq(v.term, tm.const(0, s.bits))))
        raise Unsupported("conversion %r -> bool" % s)
    if s.kind == "bool":
        if to.kind in ("int", "char"):
            return Val(to, tm.zext(v.term, to.bits))
        raise Unsupported("conversion bool -> %r" % to)
    if s.kind in ("int", "char") and to.kind in ("int", "char"):
        return Val(to, tm.resize(v.term, to.bits, s.signed))
    if s.kind in ("int", "char") and to.kind == "ptr":
        # integer -> pointer goes through the pointer-sized integer; a narrower
        # signed source is sign-extended (gcc/clang), a wider one truncated
        return Val(PTR, tm.resize(v.term, PTR.bits, s.signed))
    if s.kind == "ptr" and to.kind in ("int", "char"):
        return Val(to, tm.resize(v.term, to.bits, False))
    if s.kind == "ptr" and to.kind == "ptr":
        return Val(PTR, v.term)
    if s.kind == "float" and to.kind == "float" and s.bits == to.bits:
        return Val(to, v.term)
    if (s.kind == "float" and to.kind in ("float", "int")) or (to.kind == "float" and s.kind in ("int", "bool")):
        return self.float_conv(v, to, "trap")     # out-of-range float -> int is undefined (C/C++/D) / unspecified (C#)
    raise Unsupported("%s: conversion %r -> %r is not a bit-level operation" % (self.name, s, to))


def _c_promote(self, v: Val) -> Val:
    if v.lt.kind == "bool":
        return Val(self.int_default, tm.zext(v.term, 32))
    if v.lt.kind == "int" and v.lt.bits < 32:
        return Val(self.int_default, tm.resize(v.term, 32, v.lt.signed))
    return v


def _c_balance(self, a: Val, b: Val):
    """Usual arithmetic conversions (ILP32 / wasm32: int 32, long long 64)."""
    if a.lt is None and b.lt is None:
        a, b = self.materialize(a), self.materialize(b)
    if a.lt is None:
        a = self.materialize(a, None)
    if b.lt is None:
        b = self.materialize(b, None)
    if a.lt.kind == "float" or b.lt.kind == "float":
        raise Unsupported("floating-point operand in arithmetic")
    if a.lt.kind == "ptr" or b.lt.kind == "ptr":
        if a.lt == b.lt:
            return a, b
        raise Unsupported("pointer arithmetic")
    a, b = _c_promote(self, a), _c_promote(self, b)
    if a.lt == b.lt:
        return a, b
    wa, wb = a.lt.bits, b.lt.bits
    if a.lt.signed == b.lt.signed:
        to = a.lt if wa >= wb else b.lt
    else:
        u, s = (a.lt, b.lt) if not a.lt.signed else (b.lt, a.lt)
        to = u if u.bits >= s.bits else s
    return _c_explicit(self, a, to), _c_explicit(self, b, to)


class Cpp(Lang):
    name = "cpp"
    prec = C_PREC
    c_casts = True
    func_casts = True
    has_ternary = True
    has_deref = True
    has_ptr_types = True
    implicit_mode = "any"
    pointee_ok = {"void", "char"}
    types = {
        "bool": BOOL, "int8_t": I(8, True, "int8_t"), "uint8_t": I(8, False, "uint8_t"),
        "int16_t": I(16, True, "int16_t"), "uint16_t": I(16, False, "uint16_t"),
        "int32_t": I(32, True, "int32_t"), "uint32_t": I(32, False, "uint32_t"),
        "int64_t": I(64, True, "int64_t"), "uint64_t": I(64, False, "uint64_t"),
        "int": I(32, True, "int"), "unsigned": I(32, False, "unsigned"), "unsigned int": I(32, False, "unsigned int"),
        "size_t": I(32, False, "size_t"), "uintptr_t": I(32, False, "uintptr_t"), "intptr_t": I(32, True, "intptr_t"),
        "float": F32, "double": F64, "char32_t": I(32, False, "char32_t"),
    }
    explicit = _c_explicit
    promote = _c_promote
    balance = _c_balance

    def lit_type(self, n, suf):
        s = suf.lower()
        if s == "":
            return I(32, True, "int") if n < (1 << 31) else I(64, True, "long long")
        if s == "u":
            return I(32, False, "unsigned")
        if s in ("ll",):
            return I(64, True, "long long")
        if s in ("ull", "llu"):
            return I(64, False, "unsigned long long")
        raise Unsupported("literal suffix %r" % suf)

    def truthy(self, c):
        return _c_explicit(self, c, BOOL)

    def call(self, name, targs, args, env):
        base = name.split("::")[-1]
        if base == "move" and len(args) == 1:
            return args[0]
        if base == "bit_cast" and targs and len(args) == 1:
            if len(targs) == 2:
                to, frm = targs
                a = self.implicit(args[0], frm, "bit_cast argument")   # binds const From&
            else:
                to = targs[0]
                a = self.materialize(args[0])
            return self.reinterpret(a, to)
        if base == "static_cast" and targs and len(args) == 1:
            return self.explicit(self.materialize(args[0]), targs[0])
        return Lang.call(self, name, targs, args, env)


class CSharp(Lang):
    name = "csharp"
    prec = C_PREC
    c_casts = True
    has_ternary = True
    has_ptr_types = True
    implicit_mode = "widen"
    pointee_ok = {"void"}
    types = {
        "bool": BOOL, "sbyte": I(8, True, "sbyte"), "byte": I(8, False, "byte"),
        "short": I(16, True, "short"), "ushort": I(16, False, "ushort"),
        "int": I(32, True, "int"), "uint": I(32, False, "uint"),
        "long": I(64, True, "long"), "ulong": I(64, False, "ulong"),
        "nint": I(32, True, "nint"), "nuint": I(32, False, "nuint"),
        "float": F32, "double": F64,
    }
    promote = _c_promote

    def lit_type(self, n, suf):
        s = suf.lower()
        if s == "":
            return None   # constant expression: implicit constant conversions apply (C# 10.2.11)
        if s == "u":
            return self.types["uint"]
        if s == "l":
            return self.types["long"]
        if s in ("ul", "lu"):
            return self.types["ulong"]
        raise Unsupported("literal suffix %r" % suf)

    def materialize(self, v, want=None):
        if v.lt is None and (want is None or want.kind != "int"):
            want = self.types["int"] if v.lit < (1 << 31) else self.types["long"]
        return Lang.materialize(self, v, want)

    def explicit(self, v, to):
        s = v.lt
        if s == to:
            return Val(to, v.term)
        if s.kind == "bool" or to.kind == "bool":
            raise Unsupported("csharp: bool is not convertible to/from numeric types")
        return _c_explicit(self, v, to)

    def widening_ok(self, a, b):
        """C# implicit numeric conversions (ECMA-334 10.2.3), integral part, plus int->nint, nint->long."""
        if b.kind == "float":
            return (a.kind == "int") or (a.kind == "float" and a.bits <= b.bits)   # int -> float/double, float -> double
        if a.kind != "int" or b.kind != "int":
            return False
        an, bn = a.name, b.name
        table = {
            "sbyte": {"short", "int", "long", "nint"},
            "byte": {"short", "ushort", "int", "uint", "long", "ulong", "nint", "nuint"},
            "short": {"int", "long", "nint"},
            "ushort": {"int", "uint", "long", "ulong", "nint", "nuint"},
            "int": {"long", "nint"},
            "uint": {"long", "ulong", "nuint"},
            "long": set(), "ulong": set(),
            "nint": {"long"}, "nuint": {"ulong"},
        }
        return bn in table.get(an, set())

    def balance(self, a, b):
        """Binary numeric promotion (ECMA-334 12.4.7.3), integral part."""
        if a.lt is None and b.lt is None:
            a, b = self.materialize(a), self.materialize(b)
        if a.lt is None:
            a = self.materialize(a, b.lt if b.lt.kind == "int" and b.lt.bits >= 32 else None)
        if b.lt is None:
            b = self.materialize(b, a.lt if a.lt.kind == "int" and a.lt.bits >= 32 else None)
        if a.lt == BOOL and b.lt == BOOL:
            return a, b
        if a.lt.kind != "int" or b.lt.kind != "int":
            raise Unsupported("csharp: binary operator on %r, %r" % (a.lt, b.lt))
        T = self.types
        names = {a.lt.name, b.lt.name}
        if "ulong" in names:
            other = (names - {"ulong"}) or {"ulong"}
            if other & {"sbyte", "short", "int", "long", "nint"}:
                raise Unsupported("csharp: ulong mixed with a signed type is a compile error")
            to = T["ulong"]
        elif "long" in names:
            to = T["long"]
        elif "uint" in names:
            to = T["long"] if names & {"sbyte", "short", "int"} else T["uint"]
        elif names & {"nint", "nuint"}:
            if a.lt == b.lt:
                return a, b
            raise Unsupported("csharp: native-int mixed arithmetic")
        else:
            to = T["int"]
        return _c_explicit(self, a, to), _c_explicit(self, b, to)

    def call(self, name, targs, args, env):
        base = name.split(".")[-1]
        sig = {"SingleToInt32Bits": (F32, "int"), "Int32BitsToSingle": ("int", F32),
               "DoubleToInt64Bits": (F64, "long"), "Int64BitsToDouble": ("long", F64),
               "SingleToUInt32Bits": (F32, "uint"), "UInt32BitsToSingle": ("uint", F32),
               "DoubleToUInt64Bits": (F64, "ulong"), "UInt64BitsToDouble": ("ulong", F64)}
        if "BitConverter" in name and base in sig and len(args) == 1:
            frm, to = sig[base]
            frm = self.types[frm] if isinstance(frm, str) else frm
            to = self.types[to] if isinstance(to, str) else to
            a = self.implicit(args[0], frm, "BitConverter.%s argument" % base)
            return self.reinterpret(a, to)
        return Lang.call(self, name, targs, args, env)


class Go(Lang):
    name = "go"
    prec = GO_PREC
    func_casts = True
    implicit_mode = "exact"
    types = {
        "bool": BOOL, "int8": I(8, True, "int8"), "uint8": I(8, False, "uint8"), "byte": I(8, False, "uint8"),
        "int16": I(16, True, "int16"), "uint16": I(16, False, "uint16"),
        "int32": I(32, True, "int32"), "uint32": I(32, False, "uint32"), "rune": I(32, True, "int32"),
        "int64": I(64, True, "int64"), "uint64": I(64, False, "uint64"),
        "uintptr": I(32, False, "uintptr"),
        "float32": F32, "float64": F64,
    }

    def explicit(self, v, to):
        s = v.lt
        if s == to:
            return Val(to, v.term)
        if s.kind == "int" and to.kind == "int":
            return self.int_conv(v, to)
        if (s.kind == "float" and to.kind in ("float", "int")) or (s.kind == "int" and to.kind == "float"):
            return self.float_conv(v, to, "trap")    # float -> int out of range: implementation-dependent value
        raise Unsupported("go: conversion %r -> %r" % (s, to))

    def call(self, name, targs, args, env):
        sig = {"math.Float32bits": (F32, self.types["uint32"]), "math.Float32frombits": (self.types["uint32"], F32),
               "math.Float64bits": (F64, self.types["uint64"]), "math.Float64frombits": (self.types["uint64"], F64)}
        if name in sig and len(args) == 1:
            frm, to = sig[name]
            return self.reinterpret(self.implicit(args[0], frm, name + " argument"), to)
        return Lang.call(self, name, targs, args, env)


class D(Lang):
    name = "d"
    prec = C_PREC
    has_ternary = True
    has_deref = True
    has_ptr_types = True
    implicit_mode = "widen"
    pointee_ok = {"void"}
    types = {
        "bool": BOOL, "byte": I(8, True, "byte"), "ubyte": I(8, False, "ubyte"),
        "short": I(16, True, "short"), "ushort": I(16, False, "ushort"),
        "int": I(32, True, "int"), "uint": I(32, False, "uint"),
        "long": I(64, True, "long"), "ulong": I(64, False, "ulong"),
        "size_t": I(32, False, "size_t"), "ptrdiff_t": I(32, True, "ptrdiff_t"),
        "float": F32, "double": F64, "dchar": I(32, False, "dchar"),
    }
    explicit = _c_explicit
    promote = _c_promote
    balance = _c_balance

    def lit_type(self, n, suf):
        s = suf.lower()
        if s == "":
            return None
        if s == "u":
            return self.types["uint"]
        if s == "l":
            return self.types["long"]
        if s in ("ul", "lu"):
            return self.types["ulong"]
        raise Unsupported("literal suffix %r" % suf)

    def widening_ok(self, a, b):
        """D implicit conversions: integral types convert implicitly to any integral type
        at least as wide (signedness may change); bool converts to integral types."""
        if a.kind == "bool" and b.kind == "int":
            return True
        if b.kind == "float":
            return a.kind in ("int", "float")      # D converts integral -> floating and float <-> double implicitly
        return a.kind == "int" and b.kind == "int" and b.bits >= a.bits

    def method(self, obj, name, targs, args, env):
        if name == "reinterpretCast" and targs and not args:
            if "reinterpretCast" not in self.helpers:
                raise Unsupported("d: reinterpretCast definition was not found in wit/common.d")
            return self.reinterpret(self.materialize(obj), targs[0])
        return Lang.method(self, obj, name, targs, args, env)

    def member(self, v, name):
        return Lang.member(self, v, name)

    def eval(self, n, env):
        # (e).reinterpretCast!T without call parentheses
        if n[0] == "targs" and n[1][0] == "member" and n[1][2] == "reinterpretCast":
            return self.method(self.eval(n[1][1], env), "reinterpretCast", n[2], [], env)
        return Lang.eval(self, n, env)


RUST_INTS = {"i8": I(8, True, "i8"), "u8": I(8, False, "u8"), "i16": I(16, True, "i16"), "u16": I(16, False, "u16"),
             "i32": I(32, True, "i32"), "u32": I(32, False, "u32"), "i64": I(64, True, "i64"), "u64": I(64, False, "u64"),
             "usize": I(32, False, "usize"), "isize": I(32, True, "isize")}


class Rust(Lang):
    name = "rust"
    prec = RUST_PREC
    has_if_expr = True
    has_deref = True
    implicit_mode = "exact"
    int_default = I(32, True, "i32")
    types = dict(RUST_INTS, **{"bool": BOOL, "f32": F32, "f64": F64, "char": CHAR})

    def __init__(self, debug_assertions=True):
        Lang.__init__(self)
        self.debug_assertions = debug_assertions
        self.impls = {}   # (trait method, type name) -> (param name, body AST)
        self.fns = {}     # helper fn name -> (param, param type, ret type, body AST)

    def lit_type(self, n, suf):
        if suf == "":
            return None
        if suf in self.types and self.types[suf].kind == "int":
            return self.types[suf]
        raise Unsupported("rust literal suffix %r" % suf)

    def explicit(self, v, to):   # `as`
        s = v.lt
        if s == to:
            return Val(to, v.term)
        if s.kind == "int" and to.kind == "int":
            return self.int_conv(v, to)
        if s.kind == "bool" and to.kind == "int":
            return Val(to, tm.zext(v.term, to.bits))
        if s.kind == "char" and to.kind == "int":
            return Val(to, tm.resize(v.term, to.bits, False))
        if s == RUST_INTS["u8"] and to.kind == "char":
            return Val(CHAR, tm.zext(v.term, 32))
        if s.kind == "int" and to.kind == "ptr":     # int as usize-sized, then to pointer
            return Val(PTR, tm.resize(v.term, 32, s.signed))
        if s.kind == "ptr" and to.kind == "int":
            return Val(to, tm.resize(v.term, to.bits, False))
        if s.kind == "ptr" and to.kind == "ptr":
            return v
        if s.kind == "float" and to == s:
            return v
        if (s.kind == "float" and to.kind in ("float", "int")) or (s.kind in ("int", "bool") and to.kind == "float"):
            if s.kind == "bool":
                raise Unsupported("rust: `bool as float` does not compile")
            return self.float_conv(v, to, "sat")      # `as` float -> int saturates, NaN -> 0
        raise Unsupported("rust: `%r as %r` is not a bit-level conversion" % (s, to))

    def eval_match(self, n, env):
        scrut = self.eval(n[1], env)
        arms = []          # (guard or None, body, env)
        for pat, body in n[2]:
            if pat[0] == "wild":
                arms.append((None, body, env))
            elif pat[0] == "bind":
                e2 = dict(env)
                e2[pat[1]] = scrut
                arms.append((None, body, e2))
            elif pat[0] == "boollit":
                if scrut.lt != BOOL:
                    raise Unsupported("bool pattern on %r" % scrut.lt)
                arms.append((scrut.term if pat[1] else tm.bnot(scrut.term), body, env))
            else:
                sc = self.materialize(scrut)
                if sc.lt.kind != "int":
                    raise Unsupported("integer pattern on %r" % sc.lt)
                arms.append((tm.eq(sc.term, tm.const(pat[1], sc.lt.bits)), body, env))
        if all(g is not None for g, _, _ in arms):
            if scrut.lt == BOOL and len(arms) == 2:
                arms[-1] = (None, arms[-1][1], arms[-1][2])      # {true, false} is exhaustive
            else:
                raise Unsupported("match without a catch-all arm")
        # path condition of arm i: no earlier guard matched, and its own guard matches
        reach = tm.TRUE
        vals = []
        for g, body, e in arms:
            here = reach if g is None else tm.band(reach, g)
            n0 = len(self.traps)
            v = self.eval_body(body, e)
            for i in range(n0, len(self.traps)):
                self.traps[i] = tm.band(here, self.traps[i])
            if isinstance(v, Trap):
                self.traps.append(here)
            vals.append((g, v))
            if g is None:
                break
            reach = tm.band(reach, tm.bnot(g))
        acc = None
        for g, v in reversed(vals):
            if isinstance(v, Trap):
                continue                       # value is irrelevant where the arm traps
            if acc is None:
                acc = v
                continue
            if g is None:
                acc = v
                continue
            a, b2 = self.balance(v, acc)
            acc = Val(a.lt, tm.ite(g, a.term, b2.term))
        if acc is None:
            raise Unsupported("match that always panics")
        return acc

    def eval_body(self, body, env):
        try:
            return self.eval(body, env)
        except _TrapSignal:
            return Trap()

    def eval(self, n, env):
        if n[0] == "cond" and n[1][0] == "cfgdebug":
            return self.eval(n[2] if self.debug_assertions else n[3], env)
        return Lang.eval(self, n, env)

    def call(self, name, targs, args, env):
        base = name.split("::")[-1]
        head = name.split("::")[0] if "::" in name else ""
        if base == "from" and head in RUST_INTS and len(args) == 1:
            to = RUST_INTS[head]
            a = self.materialize(args[0])
            s = a.lt
            ok = (s.kind == "bool") or (s.kind == "int" and (
                (s.signed == to.signed and to.bits >= s.bits) or (not s.signed and to.signed and to.bits > s.bits)))
            if head in ("usize", "isize") or (s.kind == "int" and s.name in ("usize", "isize")):
                ok = ok and s.kind == "int" and s.bits <= 16 or (s == to)
            if not ok:
                raise Unsupported("rust: no `impl From<%r> for %s`" % (s, head))
            return self.explicit(a, to)
        if name in ("f64::from", "f32::from") and len(args) == 1:
            a = self.materialize(args[0])
            to = F64 if head == "f64" else F32
            ok = (a.lt == to) or (a.lt == F32 and to == F64) or (a.lt.kind == "int" and a.lt.bits * 2 <= to.bits and
                                                                  a.lt.name not in ("usize", "isize"))
            if not ok:
                raise Unsupported("rust: no `impl From<%r> for %s`" % (a.lt, head))
            return a if a.lt == to else self.float_conv(a, to)
        if name in ("f32::from_bits", "f64::from_bits") and len(args) == 1:
            src = RUST_INTS["u32" if head == "f32" else "u64"]
            return self.reinterpret(self.implicit(args[0], src, name), F32 if head == "f32" else F64)
        if name in ("f32::to_bits", "f64::to_bits") and len(args) == 1:
            return self.method(args[0], "to_bits", None, [], env)
        if base in ("from_u32_unchecked",) and len(args) == 1:
            a = self.implicit(args[0], RUST_INTS["u32"], base)
            self.traps.append(tm.bnot(valid_scalar(a.term)))      # UB outside the scalar range
            return Val(CHAR, a.term)
        if base == "from_u32" and len(args) == 1:
            a = self.implicit(args[0], RUST_INTS["u32"], base)
            return Val(("option_char",), a.term)                   # Option<char>; only .unwrap() is supported
        if name.endswith("MaybeUninit::new") and len(args) == 1:
            return self.materialize(args[0])      # MaybeUninit<T> modelled as its initialised payload
        if base == "transmute" and targs and len(args) == 1:
            a = self.implicit(args[0], targs[0], "transmute")
            if targs[1] == BOOL:
                self.traps.append(tm.bnot(tm.cmp("ule", a.term, tm.const(1, a.lt.bits))))   # UB for >1
                return Val(BOOL, tm.extract(a.term, 0, 0))
            return self.reinterpret(a, targs[1])
        # generated runtime helpers: _rt::as_i32(&x) -> <T as AsI32>::as_i32(x)
        if base in self.fns:
            return self.call_fn(base, args)
        if base in ("as_i32", "as_i64", "as_f32", "as_f64") and len(args) == 1:
            return self.method(args[0], base, None, [], env)
        return Lang.call(self, name, targs, args, env)

    def call_fn(self, base, args):
        params, ret, body = self.fns[base]
        if len(params) != len(args):
            raise Unsupported("rust: arity of %s" % base)
        e = {}
        for (pn, pt), a in zip(params, args):
            e[pn] = self.implicit(a, pt, "argument of %s" % base)
        v = self.eval(body, e)
        return self.implicit(v, ret, "return of %s" % base)

    def method(self, obj, name, targs, args, env):
        if isinstance(obj.lt, tuple) and obj.lt[0] == "option_char" and name == "unwrap":
            self.traps.append(tm.bnot(valid_scalar(obj.term)))     # panics on None
            return Val(CHAR, obj.term)
        obj = self.materialize(obj)
        if name == "to_bits" and obj.lt.kind == "float" and not args:
            return self.reinterpret(obj, RUST_INTS["u32" if obj.lt.bits == 32 else "u64"])
        if name in ("as_i32", "as_i64", "as_f32", "as_f64") and not args:
            key = (name, obj.lt.name)
            if key not in self.impls:
                raise Unsupported("rust: no generated `impl %s for %s` found" % (name, obj.lt.name))
            ret, body = self.impls[key]
            v = self.eval(body, {"self": obj})
            return self.implicit(v, ret, "return of %s::%s" % (obj.lt.name, name))
        if name in ("cast", "cast_mut", "cast_const") and obj.lt.kind == "ptr":
            return obj
        if name == "assume_init" and not args:
            return obj                             # MaybeUninit<T> modelled as its initialised payload
        return Lang.method(self, obj, name, targs, args, env)


class Trap:
    pass


class _TrapSignal(Exception):
    pass


def valid_scalar(t):
    """x < 0x110000 and not (0xD800 <= x <= 0xDFFF), x a 32-bit term; returns a 1-bit term."""
    assert t.w == 32
    return tm.band(tm.cmp("ult", t, tm.const(0x110000, 32)),
                   tm.bnot(tm.band(tm.cmp("ule", tm.const(0xD800, 32), t), tm.cmp("ule", t, tm.const(0xDFFF, 32)))))


MBT = {"Int": I(32, True, "Int"), "UInt": I(32, False, "UInt"), "Int64": I(64, True, "Int64"),
       "UInt64": I(64, False, "UInt64"), "Byte": I(8, False, "Byte"), "Int16": I(16, True, "Int16"),
       "UInt16": I(16, False, "UInt16"),
       "Bool": BOOL, "Char": CHAR, "Float": F32, "Double": F64}


class MoonBit(Lang):
    name = "moonbit"
    prec = MBT_PREC
    has_if_expr = True
    implicit_mode = "exact"
    int_default = MBT["Int"]
    types = MBT

    # receiver type -> method -> result type ; all are truncate / extend-by-source / reinterpret
    CONV = {
        "Int": {"to_byte": "Byte", "to_int64": "Int64", "to_uint64": "UInt64", "reinterpret_as_uint": "UInt",
                "to_int": "Int", "to_uint": "UInt", "to_int16": "Int16", "to_uint16": "UInt16"},
        "UInt": {"reinterpret_as_int": "Int", "to_uint64": "UInt64", "to_byte": "Byte", "to_int": "Int"},
        "Int64": {"to_int": "Int", "reinterpret_as_uint64": "UInt64", "to_byte": "Byte", "to_int64": "Int64"},
        "UInt64": {"reinterpret_as_int64": "Int64", "to_uint": "UInt", "to_int": "Int", "to_byte": "Byte"},
        "Byte": {"to_int": "Int", "to_uint": "UInt", "to_int64": "Int64", "to_uint64": "UInt64", "to_byte": "Byte"},
        "Int16": {"to_int": "Int", "to_byte": "Byte", "reinterpret_as_uint16": "UInt16", "to_int64": "Int64"},
        "UInt16": {"to_int": "Int", "to_byte": "Byte", "reinterpret_as_int16": "Int16", "to_uint": "UInt"},
        "Char": {"to_int": "Int", "to_uint": "UInt"},
    }
    REINTERP = {
        ("Float", "reinterpret_as_int"): "Int", ("Float", "reinterpret_as_uint"): "UInt",
        ("Int", "reinterpret_as_float"): "Float", ("UInt", "reinterpret_as_float"): "Float",
        ("Double", "reinterpret_as_int64"): "Int64", ("Double", "reinterpret_as_uint64"): "UInt64",
        ("Int64", "reinterpret_as_double"): "Double", ("UInt64", "reinterpret_as_double"): "Double",
    }
    BITOPS = {"land": "and", "lor": "or", "lxor": "xor"}

    def explicit(self, v, to):
        raise Unsupported("moonbit has no cast syntax")

    def method(self, obj, name, targs, args, env):
        obj = self.materialize(obj)
        tn = next((k for k, v in MBT.items() if v == obj.lt), None)
        if tn is None:
            raise Unsupported("moonbit: value of type %r" % obj.lt)
        if not args and (tn, name) in self.REINTERP:
            return self.reinterpret(obj, MBT[self.REINTERP[(tn, name)]])
        if not args and name in self.CONV.get(tn, {}):
            to = MBT[self.CONV[tn][name]]
            if obj.lt.kind == "char":
                return Val(to, obj.term)
            return self.int_conv(obj, to)
        if not args and name in ("to_float", "to_double") and tn in ("Float", "Double", "Int", "UInt", "Int64", "UInt64", "Byte"):
            to = F32 if name == "to_float" else F64
            return obj if obj.lt == to else self.float_conv(obj, to)
        if name in self.BITOPS and len(args) == 1 and obj.lt.kind == "int":
            b = self.implicit(args[0], obj.lt, "." + name)
            return Val(obj.lt, tm.binop(self.BITOPS[name], obj.term, b.term))
        return Lang.method(self, obj, name, targs, args, env)

    def call(self, name, targs, args, env):
        if name in ("Int::unsafe_to_char", "Char::from_int") and len(args) == 1:
            a = self.implicit(args[0], MBT["Int"], name)
            if name == "Int::unsafe_to_char":
                self.traps.append(tm.bnot(valid_scalar(a.term)))   # unsafe: undefined outside scalar values
            return Val(CHAR, a.term)
        if name in ("Float::from_double", "Double::from_float", "Float::from_int", "Double::from_int") and len(args) == 1:
            src = {"from_double": "Double", "from_float": "Float", "from_int": "Int"}[name.split("::")[1]]
            a = self.implicit(args[0], MBT[src], name)
            return self.float_conv(a, MBT[name.split("::")[0]])
        if "::" in name and len(args) >= 1:
            ty, m = name.split("::", 1)
            if ty in MBT:
                recv = self.implicit(args[0], MBT[ty], name)
                return self.method(recv, m, targs, args[1:], env)
        return Lang.call(self, name, targs, args, env)


LANGS = {"cpp": Cpp, "csharp": CSharp, "go": Go, "d": D, "rust": Rust, "moonbit": MoonBit}


# --------------------------------------------------------------------------
# wasm text helpers (MoonBit `extern "wasm" fn ... = #|(func ...)` bodies)
# --------------------------------------------------------------------------
def wasm_func_helper(wat: str):
    """Interpret a one-parameter, straight-line wasm text function over 32-bit terms."""
    m = re.search(r"\(func\s+((?:\(param\s+\w+\)\s*)+)\(result\s+(\w+)\)\s*(.*)\)\s*$", wat.strip(), re.S)
    if not m:
        raise Unsupported("wasm helper: unrecognised function text %r" % wat)
    params = re.findall(r"\(param\s+(\w+)\)", m.group(1))
    if any(p != "i32" for p in params) or m.group(2) != "i32":
        raise Unsupported("wasm helper: only i32 parameters/results are modelled")
    code = m.group(3).split()

    def run(lang, args):
        if len(args) != len(params):
            raise Unsupported("wasm helper arity")
        loc = [lang.implicit(a, MBT["Int"], "wasm helper argument").term for a in args]
        st = []
        i = 0
        while i < len(code):
            op = code[i]
            i += 1
            if op == "local.get":
                st.append(loc[int(code[i])])
                i += 1
            elif op == "i32.const":
                st.append(tm.const(int(code[i], 0), 32))
                i += 1
            elif op == "i32.extend8_s":
                st.append(tm.sext(tm.extract(st.pop(), 7, 0), 32))
            elif op == "i32.extend16_s":
                st.append(tm.sext(tm.extract(st.pop(), 15, 0), 32))
            elif op in ("i32.and", "i32.or", "i32.xor", "i32.add", "i32.sub"):
                b, a = st.pop(), st.pop()
                st.append(tm.binop(op[4:], a, b))
            elif op in ("i32.shl", "i32.shr_s", "i32.shr_u"):
                b, a = st.pop(), st.pop()
                if not b.is_const():
                    raise Unsupported("wasm helper: variable shift")
                b = tm.const(b.val & 31, 32)
                st.append(tm.binop({"i32.shl": "shl", "i32.shr_s": "ashr", "i32.shr_u": "lshr"}[op], a, b))
            else:
                raise Unsupported("wasm helper: instruction %s" % op)
        if len(st) != 1:
            raise Unsupported("wasm helper: stack depth %d at end" % len(st))
        return Val(MBT["Int"], st[0])
    return run
