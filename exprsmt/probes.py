"""The fixed family of probe worlds (the bound of C14 / C04B) and naming helpers."""
from __future__ import annotations

SENTINEL = "xq7"

SCALARS = ["bool", "u8", "s8", "u16", "s16", "u32", "s32", "u64", "s64", "f32", "f64", "char"]

# WIT scalar -> (lower instruction, lift instruction, core type)
INSTR = {
    "bool": ("I32FromBool", "BoolFromI32", "i32"),
    "u8": ("I32FromU8", "U8FromI32", "i32"),
    "s8": ("I32FromS8", "S8FromI32", "i32"),
    "u16": ("I32FromU16", "U16FromI32", "i32"),
    "s16": ("I32FromS16", "S16FromI32", "i32"),
    "u32": ("I32FromU32", "U32FromI32", "i32"),
    "s32": ("I32FromS32", "S32FromI32", "i32"),
    "u64": ("I64FromU64", "U64FromI64", "i64"),
    "s64": ("I64FromS64", "S64FromI64", "i64"),
    "f32": ("CoreF32FromF32", "F32FromCoreF32", "f32"),
    "f64": ("CoreF64FromF64", "F64FromCoreF64", "f64"),
    "char": ("I32FromChar", "CharFromI32", "i32"),
}

# Variant shapes that force each Bitcast.  `cases` are the WIT payload types;
# `probe` = (case index, flat slot index after the discriminant, payload WIT
# scalar, joined core type, Bitcast on lowering, Bitcast on lifting).
# Joined core types: i32 i64 f32 f64 ptr len p64 (PointerOrI64).
SHAPES = [
    {"id": "f32-s64", "cases": ["f32", "s64"], "probe": (0, 0, "f32", "i64", "F32ToI64", "I64ToF32")},
    {"id": "u32-s64", "cases": ["u32", "s64"], "probe": (0, 0, "u32", "i64", "I32ToI64", "I64ToI32")},
    {"id": "f32-u32", "cases": ["f32", "u32"], "probe": (0, 0, "f32", "i32", "F32ToI32", "I32ToF32")},
    {"id": "f64-s64", "cases": ["f64", "s64"], "probe": (0, 0, "f64", "i64", "F64ToI64", "I64ToF64")},
    {"id": "u32-str", "cases": ["u32", "string"], "probe": (0, 0, "u32", "ptr", "I32ToP", "PToI32")},
    {"id": "f32-str", "cases": ["f32", "string"], "probe": (0, 0, "f32", "ptr", "Sequence(F32ToI32,I32ToP)", "Sequence(PToI32,I32ToF32)")},
    {"id": "u64-str", "cases": ["u64", "string"], "probe": (0, 0, "u64", "p64", "I64ToP64", "P64ToI64")},
    {"id": "f64-str", "cases": ["f64", "string"], "probe": (0, 0, "f64", "p64", "Sequence(F64ToI64,I64ToP64)", "Sequence(P64ToI64,I64ToF64)")},
    {"id": "u32-u64-str", "cases": ["u32", "u64", "string"], "probe": (0, 0, "u32", "p64", "Sequence(I32ToI64,I64ToP64)", "Sequence(P64ToI64,I64ToI32)")},
    {"id": "f32-u64-str", "cases": ["f32", "u64", "string"], "probe": (0, 0, "f32", "p64", "Sequence(F32ToI64,I64ToP64)", "Sequence(P64ToI64,I64ToF32)")},
]

# Shapes decided for the C backend only (CBMC executes whole functions, so a
# string / tuple payload needs no expression extraction).
C_ONLY_SHAPES = [
    # second payload slot of a tuple joined with a string's length
    {"id": "t32-str", "cases": ["tuple<u32, u32>", "string"], "probe": (0, 1, "u32", "len", "I32ToL", "LToI32")},
    {"id": "tf32-str", "cases": ["tuple<u32, f32>", "string"], "probe": (0, 1, "f32", "len", "Sequence(F32ToI32,I32ToL)", "Sequence(LToI32,I32ToF32)")},
    # the string's own pointer / length travelling through a wider joined slot
    {"id": "u64-str", "cases": ["u64", "string"], "probe": (1, 0, "ptr", "p64", "PToP64", "P64ToP"), "name": "u64-str/b"},
    {"id": "t64-str", "cases": ["tuple<u32, u64>", "string"], "probe": (1, 1, "len", "i64", "LToI64", "I64ToL")},
    {"id": "str-tstr", "cases": ["string", "tuple<u32, string>"], "probe": (0, 1, "len", "ptr", "LToP", "PToL")},
]


def wit_text() -> str:
    out = ["package probe:p;", "", "interface sc {"]
    for t in SCALARS:
        out.append("  f-%s: func(%s: %s) -> %s;" % (t, SENTINEL, t, t))
    out += ["}", "", "interface vr {"]
    seen = set()
    for sh in SHAPES + C_ONLY_SHAPES:
        if sh["id"] in seen:
            continue
        seen.add(sh["id"])
        cases = ", ".join("%s(%s)" % (chr(ord("a") + i), c) for i, c in enumerate(sh["cases"]))
        out.append("  variant v-%s { %s }" % (sh["id"], cases))
        out.append("  g-%s: func(%s: v-%s) -> v-%s;" % (sh["id"], SENTINEL, sh["id"], sh["id"]))
    out += ["}", "", "world w {", "  import sc;", "  export sc;", "  import vr;", "  export vr;", "}", ""]
    return "\n".join(out)


def snake(name: str) -> str:
    return name.replace("-", "_")


def upper_camel(name: str) -> str:
    return "".join(p[:1].upper() + p[1:] for p in name.split("-"))


def lower_camel(name: str) -> str:
    u = upper_camel(name)
    return u[:1].lower() + u[1:]
