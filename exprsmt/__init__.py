"""E2 `exprsmt`: emitted scalar / bitcast expressions decided under the target
language's integer semantics (see /verif/DESIGN.md section 1 "E2" and
SEMANTICS.md in this directory)."""
