"""Kani on the generated Rust bindings (thorough tier): the exported
`_export_f_<T>_cabi::<G>(core)` functions are ordinary `pub unsafe fn`s; a
recording `Guest` implementation observes what the glue lifted and supplies the
value it lowers.  Decides lift-args / lower-results of the export wrappers on
the *compiled* generated code (debug-assertions semantics, which is what Kani
models), independently of the translator route.
"""
from __future__ import annotations

import os
import re
import shutil
import subprocess
import time

from . import probes

NB = {"bool": 1, "u8": 8, "s8": 8, "u16": 16, "s16": 16, "u32": 32, "s32": 32, "u64": 64, "s64": 64, "f32": 32, "f64": 64, "char": 32}


def harness_source(w_rs: str) -> str:
    """lib.rs = generated bindings (module `b`) + recording Guest + one proof per scalar type."""
    sc = []
    for t in probes.SCALARS:
        sn = probes.snake("f-" + t)
        sc.append((t, sn))
    rust_t = {}
    for t, sn in sc:
        m = re.search(r"^\s*fn %s\(%s: (\S+?),\) -> (\S+?);" % (sn, probes.SENTINEL), w_rs, re.M)
        if not m:
            raise ValueError("Guest trait method %s not found" % sn)
        rust_t[t] = m.group(1)
    core_t = {}
    for t, sn in sc:
        m = re.search(r"pub unsafe fn _export_%s_cabi<T_: Guest>\(arg0: (\S+?),\) -> (\S+?) \{" % sn, w_rs)
        if not m:
            raise ValueError("_export_%s_cabi not found" % sn)
        core_t[t] = m.group(1)
    out = ["#![allow(warnings)]", "#![no_std]", "extern crate alloc;", "extern crate std;",
           "pub mod b {", w_rs, "}", "use b::exports::probe::p::sc as sc;", "use b::exports::probe::p::vr as vr;",
           "struct G;"]
    for t in probes.SCALARS:
        out.append("static mut REC_%s: %s = %s; static mut GIV_%s: %s = %s;" % (
            t.upper(), rust_t[t], _zero(rust_t[t]), t.upper(), rust_t[t], _zero(rust_t[t])))
    out.append("impl sc::Guest for G {")
    for t, sn in sc:
        out.append("  fn %s(x: %s) -> %s { unsafe { REC_%s = x; GIV_%s } }" % (sn, rust_t[t], rust_t[t], t.upper(), t.upper()))
    out.append("}")
    # variants: Guest for vr must exist for the macro-free direct calls? we call only sc::_export_* so vr is not needed.
    out.append("fn zx(bits: u64, n: u32) -> u64 { if n >= 64 { bits } else { bits & ((1u64 << n) - 1) } }")
    out.append("fn sx(bits: u64, n: u32) -> u64 { let v = zx(bits, n); let s = 1u64 << (n - 1); (v ^ s).wrapping_sub(s) }")
    out.append("fn valid_scalar(c: u64) -> bool { c < 0x110000 && !(c >= 0xD800 && c <= 0xDFFF) }")
    for t, sn in sc:
        n = NB[t]
        lt, ct = rust_t[t], core_t[t]
        U = t.upper()
        body = ["#[cfg(kani)]", "#[kani::proof]", "fn kani_%s() {" % sn, "  unsafe {"]
        if t in ("f32", "f64"):
            bits_ty = "u32" if t == "f32" else "u64"
            body += ["    let cb: %s = kani::any(); let gb: %s = kani::any();" % (bits_ty, bits_ty),
                     "    GIV_%s = %s::from_bits(gb);" % (U, lt),
                     "    let r = sc::_export_%s_cabi::<G>(%s::from_bits(cb));" % (sn, ct),
                     "    kani::assert(REC_%s.to_bits() == cb, \"C14|%s|export\");" % (U, probes.INSTR[t][1]),
                     "    kani::assert(r.to_bits() == gb, \"C14|%s|export\");" % probes.INSTR[t][0]]
        elif t == "bool":
            body += ["    let c: i32 = kani::any(); let g: bool = kani::any(); kani::assume(c == 0 || c == 1);",
                     "    GIV_BOOL = g;",
                     "    let r = sc::_export_f_bool_cabi::<G>(c);",
                     "    kani::assert(REC_BOOL == (c == 1), \"C14|BoolFromI32|export\");",
                     "    kani::assert(r == (if g { 1 } else { 0 }), \"C14|I32FromBool|export\");"]
        elif t == "char":
            body += ["    let c: i32 = kani::any(); let g: char = kani::any(); kani::assume(valid_scalar(c as u32 as u64));",
                     "    GIV_CHAR = g;",
                     "    let r = sc::_export_f_char_cabi::<G>(c);",
                     "    kani::assert(REC_CHAR as u32 == c as u32, \"C14|CharFromI32|export\");",
                     "    kani::assert(r as u32 == g as u32, \"C14|I32FromChar|export\");"]
        else:
            cw = 64 if t in ("u64", "s64") else 32
            ext = "sx" if t.startswith("s") else "zx"
            body += ["    let c: %s = kani::any(); let g: %s = kani::any();" % (ct, lt),
                     "    GIV_%s = g;" % U,
                     "    let r = sc::_export_%s_cabi::<G>(c);" % sn,
                     # `as u64` of a signed value sign-extends = the mathematical value modulo 2^64
                     "    kani::assert((REC_%s as i64 as u64) == %s(c as i64 as u64, %d) || (REC_%s as u64) == %s(c as i64 as u64, %d), \"C14|%s|export\");"
                     % (U, ext, n, U, ext, n, probes.INSTR[t][1]) if False else
                     "    kani::assert(lang_val_%s(REC_%s) == %s(c as i64 as u64, %d), \"C14|%s|export\");" % (t, U, ext, n, probes.INSTR[t][1]),
                     "    kani::assert(zx(r as i64 as u64, %d) == zx(%s(lang_val_%s(g), %d), %d), \"C14|%s|export\");"
                     % (cw, ext, t, n, cw, probes.INSTR[t][0])]
            out.append("fn lang_val_%s(v: %s) -> u64 { v as %s as u64 }" % (t, lt, "i64" if lt.startswith("i") else "u64"))
        body += ["    kani::cover!(true, \"reached|%s\");" % sn, "  }", "}"]
        out.append("\n".join(body))
    return "\n".join(out) + "\n"


def _zero(ty):
    return {"bool": "false", "char": "'a'", "f32": "0.0", "f64": "0.0"}.get(ty, "0")


def run(out, rust_dir, work, samples, timeout=1500):
    """Returns {scalar type: [failed check labels]} for harnesses Kani refuted."""
    t0 = time.time()
    if not shutil.which("cargo-kani") and not shutil.which("kani"):
        out.outside_claim.append("Kani route: cargo-kani is not on PATH; Rust is decided by the translator route only")
        return {}
    try:
        w_rs = open(os.path.join(rust_dir, "w.rs")).read()
        src = harness_source(w_rs)
    except (OSError, ValueError) as e:
        out.inconclusive.append("rust/kani: harness generation failed: %s" % e)
        return {}
    crate = os.path.join(work, "crate")
    os.makedirs(os.path.join(crate, "src"), exist_ok=True)
    with open(os.path.join(crate, "src", "lib.rs"), "w") as f:
        f.write(src)
    with open(os.path.join(crate, "Cargo.toml"), "w") as f:
        f.write('[package]\nname = "exprsmt-kani"\nversion = "0.0.0"\nedition = "2021"\npublish = false\n\n[workspace]\n\n'
                '[dependencies]\nwit-bindgen = { path = "%s/crates/guest-rust", default-features = false }\n\n[lints.rust]\nunexpected_cfgs = { level = "allow", check-cfg = ["cfg(kani)"] }\n' % os.environ.get("VERIF_REPO", "/repo"))
    try:
        shutil.copyfile(os.path.join(os.environ.get("VERIF_REPO", "/repo"), "Cargo.lock"), os.path.join(crate, "Cargo.lock"))
    except OSError:
        pass
    env = dict(os.environ)
    env["CARGO_NET_OFFLINE"] = "true"
    cmd = ["cargo", "kani", "--target-dir", os.path.join(work, "target"), "--output-format", "terse", "-j", "4"]
    try:
        p = subprocess.run(cmd, cwd=crate, env=env, stdout=subprocess.PIPE, stderr=subprocess.STDOUT, text=True, timeout=timeout)
        txt, rc = p.stdout, p.returncode
    except subprocess.TimeoutExpired as e:
        txt, rc = (e.stdout or b"").decode() if isinstance(e.stdout, bytes) else (e.stdout or ""), -9
    dt = time.time() - t0
    with open(os.path.join(work, "kani.log"), "w") as f:
        f.write("$ %s\n%s\n[rc=%s %.1fs]\n" % (" ".join(cmd), txt, rc, dt))
    out.solver_s += dt
    out.extra["kani_s"] = round(dt, 1)
    # per-harness verdicts; with -j the output of the worker threads is interleaved, each block tagged "Thread N:"
    verdicts, failed_checks, cur = {}, {}, {}
    blocks = re.split(r"^(?=Thread \d+: |Checking harness )", txt, flags=re.M)
    for blk in blocks:
        m = re.match(r"^(?:Thread (\d+): )?Checking harness (\w+)\.\.\.", blk)
        th = None
        if m:
            th = m.group(1) or "-"
            cur[th] = m.group(2)
            rest = blk[m.end():]
        else:
            m2 = re.match(r"^Thread (\d+): ", blk)
            th = m2.group(1) if m2 else "-"
            rest = blk
        name = cur.get(th)
        if not name:
            continue
        if "VERIFICATION:- SUCCESSFUL" in rest:
            cov = re.search(r"\*\* (\d+) of (\d+) cover properties satisfied", rest)
            verdicts[name] = "ok" if (cov and cov.group(1) == cov.group(2)) else "vacuous"
        elif "VERIFICATION:- FAILED" in rest:
            verdicts[name] = "failed"
            failed_checks[name] = re.findall(r"Failed Checks: ([^\n]*)", rest)
    if not verdicts:
        out.inconclusive.append("rust/kani: no harness verdicts (rc=%s): %s" % (rc, " ".join(txt.strip().splitlines()[-3:])[:300]))
        return {}
    ok = 0
    failed = {}
    for t in probes.SCALARS:
        hn = "kani_" + probes.snake("f-" + t)
        v = verdicts.get(hn)
        out.queries += 1
        if v == "ok":
            ok += 1
        elif v == "failed":
            failed[t] = failed_checks.get(hn, [])
        else:
            out.inconclusive.append("rust/kani: harness %s did not finish or is vacuous (%s) -- see %s" % (hn, v, os.path.join(work, "kani.log")))
    out.extra["kani_harnesses_ok"] = ok
    samples.append({"backend": "rust", "route": "kani", "harnesses": len(probes.SCALARS), "successful": ok,
                    "what": "_export_f_<T>_cabi::<G>(kani::any()) with a recording Guest; lift-args and lower-results asserted, "
                            "cover witness per harness"})
    return failed
