"""Native compilation of extracted expressions where a toolchain exists
(Rust: rustc, C++: g++).  Used for (a) validating the translator's semantics on
sample inputs every run and (b) replaying `sat` models against really compiled
code.  Expressions whose types are pointer-sized are not compiled natively (the
host is 64-bit; the claim is about wasm32) -- they stay "semantic evaluator only".
"""
from __future__ import annotations

import os
import random
import re
import shutil
import subprocess

from . import langs
from .decide import resolve_type

SAMPLES_BASE = [0, 1, 2, 5, 0x7f, 0x80, 0x81, 0xfe, 0xff, 0x100, 0x101, 0x17f, 0x180, 0x1ff, 0x7fff, 0x8000, 0x8001,
                0xffff, 0x10000, 0x10001, 0x18000, 0x1ffff, 0xd7ff, 0xd800, 0xdfff, 0xe000, 0x10ffff, 0x110000,
                0x7fffffff, 0x80000000, 0x80000001, 0xffffff00, 0xffffff80, 0xffff8000, 0xffffffff, 0x7fc00001,
                0xffc12345, 0x7f800000, 0xff800000, 0x3f800000, 0xdfedb3f5,
                0x100000000, 0x1ffffffff, 0x7fffffffffffffff, 0x8000000000000000, 0xffffffff00000000,
                0xffffffff80000000, 0xffffffffffffffff, 0x7ff8000000000001, 0xfff0000000000000, 0x123456789abcdef0]


import struct as _struct


def _d(x):
    return _struct.unpack("<Q", _struct.pack("<d", x))[0]


def _f(x):
    return _struct.unpack("<I", _struct.pack("<f", x))[0]


FLOAT_SAMPLES = {
    64: [_d(0.1), _d(1e300), _d(1.0 / 3.0), _d(3.141592653589793), _d(1.0), _d(-2.5), _d(16777217.0), 0x47efffffe0000000,
         0x47efffffe0000001, 0x47effffff0000000, _d(1e-40), _d(2147483648.5), _d(-2147483648.5), _d(4294967296.0), _d(-1.0),
         _d(0.5), _d(1e19), _d(-1e19), 0x7ff0000000000000, 0xfff0000000000000, 0x8000000000000000],
    32: [_f(0.1), _f(1.0 / 3.0), _f(1.0), _f(-2.5), _f(16777216.0), _f(3.4e38), _f(1e-40), _f(2147483648.0), _f(-2147483904.0),
         _f(4294967296.0), _f(0.5), _f(-1.0), 0x7f800000, 0xff800000, 0x80000000],
}


def samples(width, seed=0, n_random=24, floats=False):
    rnd = random.Random(1000003 * width + seed)
    m = (1 << width) - 1
    out = []
    for v in (FLOAT_SAMPLES.get(width, []) if floats else []) + SAMPLES_BASE + [rnd.getrandbits(64) for _ in range(n_random)]:
        v &= m
        if v not in out:
            out.append(v)
    return out


def native_ok_type(lt):
    return not isinstance(lt, tuple) and lt.kind in ("int", "bool", "float", "char") and not (
        lt.kind == "int" and lt.name in ("usize", "isize", "size_t", "uintptr_t", "intptr_t", "nint", "nuint", "uintptr"))


# --------------------------------------------------------------------------
# Rust
# --------------------------------------------------------------------------
def _rs_from_bits(lt, text):
    if lt.kind == "bool":
        return "(b & 1) != 0"
    if lt.kind == "float":
        return "f32::from_bits(b as u32)" if lt.bits == 32 else "f64::from_bits(b)"
    if lt.kind == "char":
        return "char::from_u32(b as u32).expect(\"harness: invalid scalar\")"
    if "MaybeUninit" in text:
        return "::core::mem::MaybeUninit::new(b as %s)" % lt.name
    return "b as %s" % lt.name


def _rs_to_bits(lt, text, e):
    if lt.kind == "bool":
        return "(%s) as u64" % e
    if lt.kind == "float":
        return "(%s).to_bits() as u64" % e
    if lt.kind == "char":
        return "(%s) as u32 as u64" % e
    if "MaybeUninit" in text:
        return "(%s).assume_init() as u64" % e
    return "(%s) as u64" % e


def rust_source(rt_module, items):
    """items: [(idx, Item)] -> Rust source text, list of idx actually included."""
    L = langs.Rust()
    fns, arms, included = [], [], []
    for idx, it in items:
        try:
            in_lt = resolve_type(L, it.in_type)
            out_lt = resolve_type(L, it.sinks[-1])
        except langs.Unsupported:
            continue
        if not native_ok_type(in_lt) or not native_ok_type(out_lt):
            continue
        if any("*" in s for s in it.sinks) or "*" in it.in_type:
            continue
        body = "let r: %s = %s;" % (it.sinks[-1], it.expr)
        fns.append("#[allow(unused_unsafe, unused_parens, unused_variables)]\n#[inline(never)]\n"
                   "fn e%d(b: u64) -> u64 { unsafe { let %s: %s = %s; %s %s } }"
                   % (idx, it.in_name, it.in_type, _rs_from_bits(in_lt, it.in_type), body, _rs_to_bits(out_lt, it.sinks[-1], "r")))
        arms.append("        %d => e%d(b)," % (idx, idx))
        included.append(idx)
    src = """#![allow(dead_code, unused_imports, unused_unsafe, non_snake_case, clippy::all)]
%s
%s
fn call(i: usize, b: u64) -> u64 {
    match i {
%s
        _ => panic!("harness: no such expression"),
    }
}
fn main() {
    std::panic::set_hook(Box::new(|_| {}));
    let mut line = String::new();
    loop {
        line.clear();
        if std::io::stdin().read_line(&mut line).unwrap() == 0 { break; }
        let mut p = line.split_whitespace();
        let i: usize = match p.next() { Some(s) => s.parse().unwrap(), None => continue };
        let b: u64 = p.next().unwrap().parse().unwrap();
        match std::panic::catch_unwind(|| call(i, b)) {
            Ok(v) => println!("{} {} ok {}", i, b, v),
            Err(_) => println!("{} {} panic 0", i, b),
        }
    }
}
""" % (rt_module, "\n".join(fns), "\n".join(arms))
    return src, included


def build_rust(workdir, rt_module, items):
    """Builds two binaries (debug assertions on / off).  Returns ({mode: exe or None}, included idx, log)."""
    os.makedirs(workdir, exist_ok=True)
    src, included = rust_source(rt_module, items)
    path = os.path.join(workdir, "exprs.rs")
    with open(path, "w") as f:
        f.write(src)
    exes, log = {}, ""
    if not shutil.which("rustc"):
        return {True: None, False: None}, included, "rustc not on PATH"
    for dbg in (True, False):
        exe = os.path.join(workdir, "exprs_dbg" if dbg else "exprs_rel")
        cmd = ["rustc", "--edition", "2021", "-C", "opt-level=1", "-C", "debug-assertions=%s" % ("on" if dbg else "off"),
               "-C", "overflow-checks=off", "-A", "warnings", "-o", exe, path]
        p = subprocess.run(cmd, stdout=subprocess.PIPE, stderr=subprocess.STDOUT, text=True, timeout=300)
        log += "$ %s\n%s\n" % (" ".join(cmd), p.stdout[-3000:])
        exes[dbg] = exe if p.returncode == 0 else None
    return exes, included, log


# --------------------------------------------------------------------------
# C++
# --------------------------------------------------------------------------
_CPP_OK = {"bool", "int8_t", "uint8_t", "int16_t", "uint16_t", "int32_t", "uint32_t", "int64_t", "uint64_t", "float", "double"}


def cpp_source(items):
    fns, arms, included = [], [], []
    for idx, it in items:
        tys = [it.in_type.strip()] + [s.strip() for s in it.sinks]
        if any(t not in _CPP_OK for t in tys):
            continue
        it_t, out_t = tys[0], tys[-1]
        lines = ["static uint64_t e%d(uint64_t b) {" % idx,
                 "  %s %s = from_bits<%s>(b);" % (it_t, it.in_name, it_t)]
        prev = "(%s)" % it.expr
        for k, s in enumerate(tys[1:]):
            lines.append("  %s s%d = %s;" % (s, k, prev))
            prev = "s%d" % k
        lines.append("  return to_bits<%s>(%s);" % (out_t, prev))
        lines.append("}")
        fns.append("\n".join(lines))
        arms.append("    case %d: return e%d(b);" % (idx, idx))
        included.append(idx)
    src = """#include <cstdint>
#include <cstddef>
#include <cstdio>
#include <cstring>
#include <bit>
#include <utility>
template <class T> static T from_bits(uint64_t b) {
  if constexpr (sizeof(T) == 4 && !std::is_integral_v<T>) { uint32_t u = (uint32_t) b; T t; std::memcpy(&t, &u, 4); return t; }
  else if constexpr (sizeof(T) == 8 && !std::is_integral_v<T>) { T t; std::memcpy(&t, &b, 8); return t; }
  else if constexpr (std::is_same_v<T, bool>) { return (b & 1) != 0; }
  else { return (T) b; }
}
template <class T> static uint64_t to_bits(T v) {
  if constexpr (sizeof(T) == 4 && !std::is_integral_v<T>) { uint32_t u; std::memcpy(&u, &v, 4); return u; }
  else if constexpr (sizeof(T) == 8 && !std::is_integral_v<T>) { uint64_t u; std::memcpy(&u, &v, 8); return u; }
  else if constexpr (std::is_same_v<T, bool>) { return v ? 1 : 0; }
  else { return (uint64_t) (std::make_unsigned_t<T>) v; }
}
%s
static uint64_t call(int i, uint64_t b) {
  switch (i) {
%s
  }
  return 0;
}
int main() {
  int i; unsigned long long b;
  while (std::scanf("%%d %%llu", &i, &b) == 2) std::printf("%%d %%llu ok %%llu\\n", i, b, (unsigned long long) call(i, b));
  return 0;
}
""" % ("\n".join(fns), "\n".join(arms))
    return src, included


def build_cpp(workdir, items):
    os.makedirs(workdir, exist_ok=True)
    src, included = cpp_source(items)
    path = os.path.join(workdir, "exprs.cpp")
    with open(path, "w") as f:
        f.write(src)
    if not shutil.which("g++"):
        return None, included, "g++ not on PATH"
    exe = os.path.join(workdir, "exprs_cpp")
    cmd = ["g++", "-std=c++20", "-O0", "-w", "-include", "type_traits", "-o", exe, path]
    p = subprocess.run(cmd, stdout=subprocess.PIPE, stderr=subprocess.STDOUT, text=True, timeout=300)
    return (exe if p.returncode == 0 else None), included, "$ %s\n%s" % (" ".join(cmd), p.stdout[-3000:])


def run_native(exe, pairs):
    """pairs: [(idx, input bits)] -> {(idx, bits): ('ok'|'panic', value)}"""
    if not pairs:
        return {}
    inp = "".join("%d %d\n" % (i, b) for i, b in pairs)
    p = subprocess.run([exe], input=inp, stdout=subprocess.PIPE, stderr=subprocess.DEVNULL, text=True, timeout=120)
    out = {}
    for line in p.stdout.splitlines():
        m = re.match(r"^(\d+) (\d+) (ok|panic) (\d+)$", line.strip())
        if m:
            out[(int(m.group(1)), int(m.group(2)))] = (m.group(3), int(m.group(4)))
    return out
