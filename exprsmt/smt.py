"""SMT-LIB batch runner for z3 / cvc5 (QF_BV).

A query is (name, {var: width}, assertion term of width 1).  The question is
always "is the assertion satisfiable?" -- the assertion is the *negated* goal,
so `unsat` means the goal holds for every input.  `unknown`, `(error`, timeouts
and unparsable output are reported as "inconclusive", never as unsat.
"""
from __future__ import annotations

import re
import shutil
import subprocess
import time

SOLVERS = {
    "z3": ["/usr/bin/z3", "-in", "-smt2"],
    "cvc5": ["cvc5", "--incremental", "--lang", "smt2"],
    "z3-new": ["z3-new", "-in", "-smt2"],
}


def available(name):
    return shutil.which(SOLVERS[name][0]) is not None


def fp_parts(assertion):
    """fresh variables and defining assertions of the floating-point conversion nodes in a term"""
    defs = assertion.fp_defs()
    return {n: w for n, (w, _a) in defs.items()}, [a for _n, (_w, asserts) in sorted(defs.items()) for a in asserts]


def script(queries):
    """QF_BV unless some query contains floating-point conversion nodes (then QF_BVFP: each node is a fresh bit-vector
    variable constrained through `to_fp`, so every term stays a bit-vector and no fp.to_ieee_bv is needed)."""
    out = ["(set-logic %s)" % ("QF_BVFP" if any(q[2].uses_fp() for q in queries) else "QF_BV")]
    for i, (name, decls, assertion) in enumerate(queries):
        out.append('(echo "Q %d")' % i)
        out.append("(push 1)")
        fdecls, fasserts = fp_parts(assertion)
        for v, w in sorted(list(decls.items()) + list(fdecls.items())):
            out.append("(declare-const %s (_ BitVec %d))" % (v, w))
        for a in fasserts:
            out.append("(assert %s)" % a)
        out.append("(assert (= %s #b1))" % assertion.smt())
        out.append("(check-sat)")
        out.append("(pop 1)")
    out.append('(echo "END")')
    return "\n".join(out) + "\n"


def run_batch(queries, solver, timeout=120):
    """Returns ({index: 'sat'|'unsat'|'inconclusive: ...'}, seconds, raw)."""
    if not queries:
        return {}, 0.0, ""
    t0 = time.time()
    try:
        p = subprocess.run(SOLVERS[solver], input=script(queries), stdout=subprocess.PIPE, stderr=subprocess.STDOUT,
                           text=True, timeout=timeout)
        raw = p.stdout
    except subprocess.TimeoutExpired:
        return {i: "inconclusive: %s timeout" % solver for i in range(len(queries))}, time.time() - t0, ""
    except FileNotFoundError:
        return {i: "inconclusive: %s not found" % solver for i in range(len(queries))}, 0.0, ""
    dt = time.time() - t0
    res = {}
    cur = None
    buf = {}
    for line in raw.splitlines():
        line = line.strip().strip('"')
        m = re.match(r"^Q (\d+)$", line)
        if m:
            cur = int(m.group(1))
            buf[cur] = []
            continue
        if line == "END":
            cur = None
            continue
        if cur is not None and line:
            buf[cur].append(line)
    for i in range(len(queries)):
        lines = buf.get(i)
        if lines is None:
            res[i] = "inconclusive: no answer from %s" % solver
        elif len(lines) == 1 and lines[0] in ("sat", "unsat"):
            res[i] = lines[0]
        else:
            res[i] = "inconclusive: %s said %r" % (solver, " / ".join(lines)[:200])
    return res, dt, raw


def get_model(query, solver="z3", timeout=60):
    """Model of one satisfiable query: {var: int} or None."""
    name, decls, assertion = query
    s = ["(set-option :produce-models true)", "(set-logic %s)" % ("QF_BVFP" if assertion.uses_fp() else "QF_BV")]
    fdecls, fasserts = fp_parts(assertion)
    for v, w in sorted(list(decls.items()) + list(fdecls.items())):
        s.append("(declare-const %s (_ BitVec %d))" % (v, w))
    for a in fasserts:
        s.append("(assert %s)" % a)
    s.append("(assert (= %s #b1))" % assertion.smt())
    s.append("(check-sat)")
    s.append("(get-value (%s))" % " ".join(sorted(decls)))
    cmd = list(SOLVERS[solver])
    if solver == "cvc5":
        cmd.append("--produce-models")
    try:
        p = subprocess.run(cmd, input="\n".join(s) + "\n", stdout=subprocess.PIPE, stderr=subprocess.STDOUT, text=True,
                           timeout=timeout)
    except (subprocess.TimeoutExpired, FileNotFoundError):
        return None
    if not p.stdout.strip().startswith("sat"):
        return None
    model = {}
    for m in re.finditer(r"\((\w+)\s+(#x[0-9a-fA-F]+|#b[01]+)\)", p.stdout):
        t = m.group(2)
        model[m.group(1)] = int(t[2:], 16) if t[1] == "x" else int(t[2:], 2)
    return model if set(model) == set(decls) else None
