#!/usr/bin/env python3
"""Mutation self-test of engine exprsmt.

Each mutation is a hand-made breaking edit of one backend.  The edits are applied to a SCRATCH COPY of /repo
(/verif/work/exprsmt/selftest/repo), never to /repo itself; the engine is pointed at the copy with VERIF_REPO, builds a
private copy of the driver against it, and writes its replays/evidence under the scratch directory.  A mutation is
"caught" when the check exits 1 with a VIOLATION whose role names the mutated backend and instruction.

  python3 /verif/exprsmt/selftest.py [name ...]        # run all or the named mutations
  python3 /verif/exprsmt/selftest.py --one C14         # (internal) run one property in the current environment
"""
import json
import os
import shutil
import subprocess
import sys
import time

HERE = os.path.dirname(os.path.abspath(__file__))
VERIF = os.path.dirname(HERE)
ST = os.path.join(VERIF, "work", "exprsmt", "selftest")
SCRATCH = os.path.join(ST, "repo")

# mutations live in selftest_mutations.json: name, prop, expect (role prefixes), edits [{file, old, new}]


def run_one(prop):
    sys.path.insert(0, os.path.join(VERIF, "lib"))
    sys.path.insert(0, VERIF)
    import vlib
    vlib.REPLAY_DIR = os.path.join(ST, "replays")
    vlib.EVIDENCE_DIR = os.path.join(ST, "evidence")
    vlib.KNOWN_FINDINGS = os.path.join(ST, "no_known_findings.json")
    from engines import exprsmt
    t0 = time.time()
    out = exprsmt.run(prop, "quick", 0)
    return vlib.finish(prop, "quick", 0, out, t0)


def fresh_copy():
    if os.path.exists(SCRATCH):
        shutil.rmtree(SCRATCH)
    # shutil.copy (not copy2): fresh mtimes, so cargo's mtime fingerprints never mistake the copy for an older build input
    shutil.copytree("/repo", SCRATCH, ignore=shutil.ignore_patterns("target", ".git"), symlinks=True, copy_function=shutil.copy)


def main():
    if len(sys.argv) >= 3 and sys.argv[1] == "--one":
        sys.exit(run_one(sys.argv[2]))
    muts = json.load(open(os.path.join(HERE, "selftest_mutations.json")))
    names = sys.argv[1:]
    os.makedirs(ST, exist_ok=True)
    fresh_copy()
    results = []
    baseline = {}
    for m in muts:
        if names and m["name"] not in names:
            continue
        originals = {}
        ok_apply = True
        for ed in m.get("edits", []):
            path = os.path.join(SCRATCH, ed["file"])
            text = open(path).read()
            originals.setdefault(path, text)
            if text.count(ed["old"]) != 1:
                print("MUTATION %s: pattern occurs %d times in %s -- not applied" % (m["name"], text.count(ed["old"]), ed["file"]))
                ok_apply = False
                break
            with open(path, "w") as f:
                f.write(text.replace(ed["old"], ed["new"]))
        if ok_apply and m.get("patch"):
            pr = subprocess.run(["patch", "-p1", "-s", "-d", SCRATCH, "-i", m["patch"]], stdout=subprocess.PIPE, stderr=subprocess.STDOUT, text=True)
            if pr.returncode != 0:
                print("MUTATION %s: patch does not apply: %s" % (m["name"], pr.stdout.strip()[:200]))
                ok_apply = False
        if ok_apply:
            env = dict(os.environ, VERIF_REPO=SCRATCH, EXPRSMT_WORK=os.path.join(ST, "work"))
            t0 = time.time()
            p = subprocess.run([sys.executable, os.path.abspath(__file__), "--one", m["prop"]], env=env,
                               stdout=subprocess.PIPE, stderr=subprocess.STDOUT, text=True)
            roles = [l.split("role=", 1)[1].strip() for l in p.stdout.splitlines() if l.strip().startswith("role=")]
            inconc = [l for l in p.stdout.splitlines() if l.startswith("INCONCLUSIVE")]
            if not m.get("edits") and not m.get("patch"):
                baseline[m["prop"]] = list(roles)
            new_roles = [r for r in roles if r not in baseline.get(m["prop"], [])]
            caught = all(any(r.startswith(e) for r in roles) for e in m["expect"]) and (p.returncode == 1 or not m["expect"])
            if "expect_inconclusive" in m:
                # an expression outside the supported subset must be reported INCONCLUSIVE, and must not become a violation
                caught = any(m["expect_inconclusive"] in l for l in inconc) and not new_roles
            results.append((m["name"], m["prop"], p.returncode, caught, new_roles, len(inconc), round(time.time() - t0, 1)))
            print("%-36s %-4s exit=%d %s new_roles=%s inconclusive=%d (%.0fs)" % (
                m["name"], m["prop"], p.returncode, "CAUGHT" if caught and m["expect"] else ("ok" if caught else "MISSED"),
                new_roles, len(inconc), time.time() - t0))
            with open(os.path.join(ST, "log_%s.txt" % m["name"]), "w") as f:
                f.write(p.stdout)
        for path, text in originals.items():
            with open(path, "w") as f:
                f.write(text)
        if ok_apply and m.get("patch"):
            subprocess.run(["patch", "-p1", "-s", "-R", "-d", SCRATCH, "-i", m["patch"]], stdout=subprocess.PIPE, stderr=subprocess.STDOUT)
    not_applied = [m["name"] for m in muts if (not names or m["name"] in names) and m["name"] not in [r[0] for r in results]]
    if not_applied:
        print("NOT APPLIED: %s" % not_applied)
    missed = [r for r in results if not r[3]]
    print("SELFTEST %d mutations, %d caught/ok, %d missed" % (len(results), len(results) - len(missed), len(missed)))
    return 1 if missed else 0


if __name__ == "__main__":
    sys.exit(main())
