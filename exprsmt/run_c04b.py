#!/usr/bin/env python3
"""Stand-alone runner for the backend half of C04 (`engines.exprsmt.run("C04B", ..)`), for use until it is merged into
`/verif/check C04`.  Evidence goes to /verif/work/exprsmt/evidence/C04B.json (not to /verif/evidence); known findings
are looked up under property "C04", which is where the merged check will find them.

  python3 /verif/exprsmt/run_c04b.py [--tier quick|thorough] [--replay PATH]
"""
import argparse
import os
import sys
import time

HERE = os.path.dirname(os.path.abspath(__file__))
VERIF = os.path.dirname(HERE)
sys.path.insert(0, os.path.join(VERIF, "lib"))
sys.path.insert(0, VERIF)
import vlib  # noqa: E402
from engines import exprsmt  # noqa: E402


def main():
    ap = argparse.ArgumentParser()
    ap.add_argument("--tier", default=None)
    ap.add_argument("--replay", default=None)
    a = ap.parse_args()
    if a.replay:
        return exprsmt.replay("C04B", a.replay)
    tier = vlib.tier_from_env(a.tier)
    seed = vlib.seed_from_env()
    t0 = time.time()
    out = exprsmt.run("C04B", tier, seed)
    vlib.EVIDENCE_DIR = os.path.join(vlib.WORK_DIR, "exprsmt", "evidence")
    real_load = vlib.load_known

    def load_as_c04():
        k = real_load()
        return {"open": [dict(e, property="C04B") for e in k.get("open", []) if e.get("property") == "C04"], "fixed": k.get("fixed", [])}
    vlib.load_known = load_as_c04
    return vlib.finish("C04B", tier, seed, out, t0)


if __name__ == "__main__":
    sys.exit(main())
