#ifndef EXPRSMT_STRING_H
#define EXPRSMT_STRING_H
#include <stddef.h>
void *memcpy(void *dst, const void *src, size_t n);
void *memset(void *dst, int c, size_t n);
int memcmp(const void *a, const void *b, size_t n);
size_t strlen(const char *s);
#endif
