/* exprsmt shim for `cbmc --32`: the image has no 32-bit libc headers.
   ILP32 / wasm32 data model: int 32, long 32, long long 64, pointers 32. */
#ifndef EXPRSMT_STDINT_H
#define EXPRSMT_STDINT_H
typedef signed char int8_t;
typedef unsigned char uint8_t;
typedef short int16_t;
typedef unsigned short uint16_t;
typedef int int32_t;
typedef unsigned int uint32_t;
typedef long long int64_t;
typedef unsigned long long uint64_t;
typedef int intptr_t;
typedef unsigned int uintptr_t;
#define INT32_MAX 2147483647
#define INT32_MIN (-2147483647-1)
#define UINT32_MAX 4294967295u
#endif
