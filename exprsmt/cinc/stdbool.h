#ifndef EXPRSMT_STDBOOL_H
#define EXPRSMT_STDBOOL_H
#define bool _Bool
#define true 1
#define false 0
#endif
