#ifndef EXPRSMT_STDLIB_H
#define EXPRSMT_STDLIB_H
#include <stddef.h>
void *malloc(size_t n);
void *realloc(void *p, size_t n);
void free(void *p);
void abort(void);
#endif
