#ifndef EXPRSMT_STDDEF_H
#define EXPRSMT_STDDEF_H
typedef unsigned int size_t;
typedef int ptrdiff_t;
#ifndef NULL
#define NULL ((void*)0)
#endif
#define offsetof(t, m) __builtin_offsetof(t, m)
#endif
