#ifndef EXPRSMT_ASSERT_H
#define EXPRSMT_ASSERT_H
#define assert(c) __CPROVER_assert((c), "assert(" #c ")")
#endif
