"""C backend route: no translator.  The generated w.c / w.h go to CBMC
(`cbmc --32 --little-endian -I cinc`) together with a generated harness whose
`__wasm_import_*` definitions and `exports_*` user functions record what crossed
the boundary; assertions compare with the canonical mapping written with
explicit mask / xor / subtract arithmetic on unsigned 64-bit values (the only C
conversion the oracle relies on is integer -> unsigned 64-bit, which C11
6.3.1.3p2 defines as reduction modulo 2^64).

The same harness file compiles natively (`gcc -DEXPRSMT_NATIVE`) with the
nondeterministic inputs replaced by command-line values: that is the replay of
CBMC counterexamples against the real generated code.
"""
from __future__ import annotations

import os
import re
import subprocess
import time

from . import probes

HERE = os.path.dirname(os.path.abspath(__file__))
CINC = os.path.join(HERE, "cinc")

NBITS = {"bool": 1, "u8": 8, "s8": 8, "u16": 16, "s16": 16, "u32": 32, "s32": 32, "u64": 64, "s64": 64,
         "f32": 32, "f64": 64, "char": 32}
SIGNED = {"s8", "s16", "s32", "s64"}

PRELUDE = r'''
/* ---- exprsmt harness prelude (generated) ---- */
typedef unsigned long long u64_;
static u64_ mask_(int n) { return n >= 64 ? ~0ull : ((1ull << n) - 1ull); }
/* zero-/sign-extension of the low n bits to 64 bits, by arithmetic only */
static u64_ zx_(u64_ bits, int n) { return bits & mask_(n); }
static u64_ sx_(u64_ bits, int n) { u64_ v = bits & mask_(n); u64_ s = 1ull << (n - 1); return (v ^ s) - s; }
static int valid_scalar_(u64_ c) { return c < 0x110000ull && !(c >= 0xD800ull && c <= 0xDFFFull); }
static u64_ f32bits_(float f) { union { float f; unsigned int u; } x; x.f = f; return x.u; }
static u64_ f64bits_(double f) { union { double f; unsigned long long u; } x; x.f = f; return x.u; }
static float f32from_(u64_ b) { union { float f; unsigned int u; } x; x.u = (unsigned int) b; return x.f; }
static double f64from_(u64_ b) { union { double f; unsigned long long u; } x; x.u = b; return x.f; }
static u64_ in_[4];   /* the inputs of the current harness, as bit patterns (read back from traces) */
#ifdef EXPRSMT_NATIVE
#include <stdio.h>
#define CHECK_(c, label) printf("%s %s\n", (c) ? "PASS" : "FAIL", label)
#define ND64_(i) (in_[i])
#else
unsigned long long nondet_u64(void);
#define CHECK_(c, label) __CPROVER_assert((c), label)
#define ND64_(i) (in_[i] = nondet_u64())
#endif
'''


def from_bits(ctype, e):
    """C expression converting the u64_ bit pattern `e` into a value of ctype (modular / reinterpret)."""
    if ctype == "float":
        return "f32from_(%s)" % e
    if ctype == "double":
        return "f64from_(%s)" % e
    if "*" in ctype:
        return "((%s)(uintptr_t)(%s))" % (ctype, e)
    if ctype == "bool":
        return "((bool)((%s) & 1ull))" % e
    return "((%s)(%s))" % (ctype, e)


def bits_of(expr, ctype):
    """C expression for the two's-complement / IEEE bit pattern of `expr` as u64_ (modular conversions only)."""
    if ctype == "float":
        return "f32bits_(%s)" % expr
    if ctype == "double":
        return "f64bits_(%s)" % expr
    if "*" in ctype:
        return "((u64_)(uintptr_t)(%s))" % expr
    return "((u64_)(%s))" % expr


CT_BITS = {"bool": 1, "uint8_t": 8, "int8_t": 8, "uint16_t": 16, "int16_t": 16, "uint32_t": 32, "int32_t": 32,
           "uint64_t": 64, "int64_t": 64, "float": 32, "double": 64, "size_t": 32, "uint8_t *": 32}


class CGen:
    def __init__(self, cdir):
        self.cdir = cdir
        self.h = open(os.path.join(cdir, "w.h")).read()
        self.c = open(os.path.join(cdir, "w.c")).read()
        self.problems = []    # extraction problems -> inconclusive
        self.harnesses = []
        self.out = [PRELUDE]
        self.stubbed = set()

    # ---- declarations read from the generated header / source --------
    def _decl(self, text, name, extern):
        pre = r"^extern\s+" if extern else r"^"
        m = re.search(pre + r"(\S[^\n(]*?)\s*\b%s\((.*?)\)\s*[;{]" % re.escape(name), text, re.M)
        if not m:
            return None
        params = []
        for p in m.group(2).split(","):
            p = p.strip()
            if not p:
                continue
            mm = re.match(r"^(.*?[\s*])(\w+)$", p)
            if mm and mm.group(1).strip():
                params.append((mm.group(1).strip(), mm.group(2)))
            else:
                params.append((p, None))
        return m.group(1).strip(), params

    def line_of(self, needle):
        i = self.c.find(needle)
        return self.c.count("\n", 0, i) + 1 if i >= 0 else None

    # ---- scalars ------------------------------------------------------
    def gen_scalar(self, t):
        lower_i, lift_i, core = probes.INSTR[t]
        sn = probes.snake("f-" + t)
        n = NBITS[t]
        cw = 64 if core in ("i64", "f64") else 32
        o = self.out
        # ---------- import context: lower the argument, lift the result
        wname = "probe_p_sc_" + sn
        iname = "__wasm_import_probe_p_sc_" + sn
        d = self._decl(self.h, wname, True)
        ci = self._decl(self.c, iname, True)
        if not d or not ci or len(d[1]) != 1 or len(ci[1]) != 1 or d[1][0][1] != probes.SENTINEL:
            self.problems.append("c: cannot locate import wrapper / core import for f-%s (%r, %r)" % (t, d, ci))
        else:
            lang_t, core_t = d[0], ci[0]
            if d[1][0][0] != lang_t or lang_t not in CT_BITS or core_t not in CT_BITS:
                self.problems.append("c: unexpected signature of %s: %r" % (wname, d))
            else:
                hn = "h_sc_%s_import" % t
                o.append("static %s rec_%s; static %s giv_%s;" % (core_t, hn, core_t, hn))
                o.append("%s %s(%s a) { rec_%s = a; return giv_%s; }" % (core_t, iname, ci[1][0][0], hn, hn))
                o.append("void %s(void) {" % hn)
                o.append("  %s x = %s; giv_%s = %s;" % (lang_t, from_bits(lang_t, "ND64_(0)"), hn, from_bits(core_t, "ND64_(1)")))
                o.append("  %s r = %s(x);" % (lang_t, wname))
                self._scalar_asserts(o, t, n, cw, "x", lang_t, "rec_" + hn, core_t, "giv_" + hn, "r", "import", lower_i, lift_i)
                o.append("}")
                self.harnesses.append({"name": hn, "kind": "scalar", "t": t, "ctx": "import", "lang_t": lang_t, "core_t": core_t,
                                       "labels": ["C14|%s|import" % lower_i, "C14|%s|import" % lift_i] +
                                                 (["C14|%s|import|noncanonical-nonzero-lifts-false" % lift_i] if t == "bool" else []),
                                       "inputs": [("language value lowered (%s)" % lang_t, CT_BITS[lang_t]),
                                                  ("core result lifted (%s)" % core_t, CT_BITS[core_t])],
                                       "fn": wname, "line": self.line_of(" %s(" % wname)})
        # ---------- export context: lift the argument, lower the result
        ename = "__wasm_export_exports_probe_p_sc_" + sn
        uname = "exports_probe_p_sc_" + sn
        ce = self._decl(self.c, ename, False)
        du = self._decl(self.h, uname, False)
        if not ce or not du or len(ce[1]) != 1 or len(du[1]) != 1:
            self.problems.append("c: cannot locate export wrapper / user function for f-%s" % t)
            return
        core_t, lang_t, carg_t = ce[0], du[0], ce[1][0][0]
        if lang_t not in CT_BITS or core_t not in CT_BITS or carg_t not in CT_BITS:
            self.problems.append("c: unexpected signature of %s: %r %r" % (ename, ce, du))
            return
        hn = "h_sc_%s_export" % t
        o.append("static %s rec_%s; static %s giv_%s;" % (lang_t, hn, lang_t, hn))
        o.append("%s %s(%s a) { rec_%s = a; return giv_%s; }" % (lang_t, uname, lang_t, hn, hn))
        o.append("void %s(void) {" % hn)
        o.append("  giv_%s = %s; %s c = %s;" % (hn, from_bits(lang_t, "ND64_(0)"), carg_t, from_bits(carg_t, "ND64_(1)")))
        o.append("  %s r = %s(c);" % (core_t, ename))
        self._scalar_asserts(o, t, n, cw, "giv_" + hn, lang_t, "r", core_t, "c", "rec_" + hn, "export", lower_i, lift_i)
        o.append("}")
        self.harnesses.append({"name": hn, "kind": "scalar", "t": t, "ctx": "export", "lang_t": lang_t, "core_t": core_t,
                               "labels": ["C14|%s|export" % lower_i, "C14|%s|export" % lift_i] +
                                         (["C14|%s|export|noncanonical-nonzero-lifts-false" % lift_i] if t == "bool" else []),
                               "inputs": [("language result lowered (%s)" % lang_t, CT_BITS[lang_t]),
                                          ("core argument lifted (%s)" % carg_t, CT_BITS[carg_t])],
                               "fn": ename, "line": self.line_of(" %s(" % ename)})

    def _scalar_asserts(self, o, t, n, cw, lx, lang_t, core_out, core_t, core_in, lr, ctx, lower_i, lift_i):
        """lx: language value being lowered, core_out: core value the glue produced for it;
        core_in: core value handed to the glue, lr: language value the glue produced for it."""
        cb_out = bits_of(core_out, core_t)
        cb_in = bits_of(core_in, core_t)
        lxb = bits_of(lx, lang_t)
        lrb = bits_of(lr, lang_t)
        ext = "sx_" if t in SIGNED else "zx_"
        if t == "bool":
            o.append('  CHECK_(zx_(%s, 32) == (%s ? 1ull : 0ull), "C14|%s|%s");' % (cb_out, lx, lower_i, ctx))
            o.append('  if (zx_(%s, 32) <= 1ull) CHECK_((%s ? 1ull : 0ull) == zx_(%s, 32), "C14|%s|%s");'
                     % (cb_in, lr, cb_in, lift_i, ctx))
            # other non-zero core values: the spec lifts them to true (C cannot trap here); `false` is a violation
            o.append('  if (zx_(%s, 32) > 1ull) CHECK_((%s ? 1ull : 0ull) == 1ull, "C14|%s|%s|noncanonical-nonzero-lifts-false");'
                     % (cb_in, lr, lift_i, ctx))
            return
        if t == "char":
            o.append('  if (valid_scalar_(zx_(%s, 32))) CHECK_(zx_(%s, 32) == zx_(%s, 32), "C14|%s|%s");' % (lxb, cb_out, lxb, lower_i, ctx))
            o.append('  if (valid_scalar_(zx_(%s, 32))) CHECK_(zx_(%s, 32) == zx_(%s, 32), "C14|%s|%s");' % (cb_in, lrb, cb_in, lift_i, ctx))
            return
        if t in ("f32", "f64"):
            o.append('  CHECK_(%s == %s, "C14|%s|%s");' % (cb_out, lxb, lower_i, ctx))
            o.append('  CHECK_(%s == %s, "C14|%s|%s");' % (lrb, cb_in, lift_i, ctx))
            return
        # integers: the WIT value of a language value is its mathematical value; its N-bit pattern
        # is (u64)(x) & mask (conversion to unsigned is modular).  Canonical core = ext(pattern).
        o.append('  CHECK_(zx_(%s, %d) == zx_(%s(%s, %d), %d), "C14|%s|%s");' % (cb_out, cw, ext, lxb, n, cw, lower_i, ctx))
        # lift: low n bits of the core value with the type's signedness; `(u64_) r` is the
        # language value's mathematical value modulo 2^64
        o.append('  CHECK_(%s == %s(%s, %d), "C14|%s|%s");' % (lrb, ext, cb_in, n, lift_i, ctx))

    # ---- variants -----------------------------------------------------
    def gen_variant(self, sh):
        sid = sh["id"]
        label = sh.get("name", sid)
        case, slot, pay_t, joined, bc_lower, bc_lift = sh["probe"]
        sn = probes.snake("g-" + sid)
        sk = probes.snake(sid)
        vt = "probe_p_vr_v_%s_t" % sk
        evt = "exports_" + vt
        iname = "__wasm_import_probe_p_vr_" + sn
        wname = "probe_p_vr_" + sn
        ename = "__wasm_export_exports_probe_p_vr_" + sn
        uname = "exports_probe_p_vr_" + sn
        ci = self._decl(self.c, iname, True)
        ce = self._decl(self.c, ename, False)
        if not ci or not ce:
            self.problems.append("c: cannot locate core import/export for g-%s" % sid)
            return
        slots_t = [p[0] for p in ci[1][1:-1]]     # flat payload slots (after discriminant, before return pointer)
        if [p[0] for p in ce[1][1:]] != slots_t:
            self.problems.append("c: import/export flat signatures differ for g-%s: %r vs %r" % (sid, slots_t, ce[1]))
            return
        if slot >= len(slots_t) or any(s not in CT_BITS for s in slots_t):
            self.problems.append("c: g-%s: unexpected flat slots %r" % (sid, slots_t))
            return
        slot_t = slots_t[slot]
        sw = {"i32": 32, "i64": 64, "ptr": 32, "len": 32, "p64": 64}[joined]
        if CT_BITS[slot_t] != sw:
            self.problems.append("c: g-%s: slot %d is %s, expected a %d-bit core type" % (sid, slot, slot_t, sw))
            return
        cname = chr(ord("a") + case)
        if pay_t in ("ptr", "len"):
            acc = "val.%s" % cname + (".ptr" if pay_t == "ptr" else ".len")
            if sh["cases"][case] != "string":
                self.problems.append("c: g-%s: pointer/length probe on a non-string case" % sid)
                return
            pay_ct = "uint8_t *" if pay_t == "ptr" else "size_t"
            pw = 32
        else:
            acc = "val.%s" % cname
            if sh["cases"][case].startswith("tuple"):
                acc += ".f%d" % slot
            pay_ct = {"u32": "uint32_t", "u64": "uint64_t", "f32": "float", "f64": "double"}[pay_t]
            pw = NBITS[pay_t]
        hn = "h_vr_%s" % re.sub(r"\W", "_", label)
        o = self.out
        nslots = len(slots_t)
        if sid not in self.stubbed:
            self.stubbed.add(sid)
            for i, st in enumerate(slots_t):
                o.append("static %s recs_%s_%d;" % (st, sk, i))
            o.append("static int32_t rect_%s;" % sk)
            o.append("void %s(int32_t t%s, uint8_t *retp) { rect_%s = t; %s }" % (
                iname, "".join(", %s s%d" % (st, i) for i, st in enumerate(slots_t)), sk,
                " ".join("recs_%s_%d = s%d;" % (sk, i, i) for i in range(nslots))))
            o.append("static %s reca_%s; static int givtag_%s;" % (evt, sk, sk))
            o.append("void %s(%s *a, %s *ret) { reca_%s = *a; ret->tag = givtag_%s; }" % (uname, evt, evt, sk, sk))
        recp = bits_of("reca_%s.%s" % (sk, acc), pay_ct)
        rectag = "reca_%s.tag" % sk
        setp = "v.%s = %s;" % (acc, from_bits(pay_ct, "px"))
        # -- lower (import context)
        o.append("void %s_lower(void) {" % hn)
        o.append("  %s v; %s outv; v.tag = %d;" % (vt, vt, case))
        o.append("  u64_ px = (in_[0] = ND64_(0) & mask_(%d)); %s" % (pw, setp))
        o.append("  %s(&v, &outv);" % wname)
        o.append('  CHECK_(rect_%s == %d, "SANITY|discriminant|%s");' % (sk, case, label))
        o.append('  CHECK_(zx_(%s, %d) == zx_(px, %d), "C04B|%s|lower");' % (bits_of("recs_%s_%d" % (sk, slot), slot_t), sw, pw, bc_lower))
        o.append("}")
        # -- lift (export context): the joined slot is arbitrary
        args = [from_bits(st, "sx") if i == slot else from_bits(st, "0ull") for i, st in enumerate(slots_t)]
        o.append("void %s_lift(void) {" % hn)
        o.append("  u64_ sx = (in_[0] = ND64_(0) & mask_(%d)); givtag_%s = 0;" % (sw, sk))
        o.append("  %s(%d%s);" % (ename, case, "".join(", " + a for a in args)))
        o.append('  CHECK_(%s == %d, "SANITY|discriminant|%s");' % (rectag, case, label))
        o.append('  CHECK_(zx_(%s, %d) == zx_(sx, %d), "C04B|%s|lift");' % (recp, pw, pw, bc_lift))
        o.append("}")
        # -- round trip: lower, then lift exactly what was lowered
        o.append("void %s_rt(void) {" % hn)
        o.append("  %s v; %s outv; v.tag = %d;" % (vt, vt, case))
        o.append("  u64_ px = (in_[0] = ND64_(0) & mask_(%d)); %s" % (pw, setp))
        o.append("  %s(&v, &outv);" % wname)
        o.append("  givtag_%s = 0; %s(rect_%s%s);" % (sk, ename, sk, "".join(", recs_%s_%d" % (sk, i) for i in range(nslots))))
        o.append('  CHECK_(%s == %d && zx_(%s, %d) == px, "C04B|%s+%s|roundtrip");' % (rectag, case, recp, pw, bc_lower, bc_lift))
        o.append("}")
        common = {"kind": "variant", "shape": label, "pay_t": pay_t, "pay_ct": pay_ct, "slot_t": slot_t, "joined": joined,
                  "pw": pw, "sw": sw}
        self.harnesses.append(dict(common, name=hn + "_lower", ctx="lower", labels=["C04B|%s|lower" % bc_lower],
                                   inputs=[("payload bits (%s)" % pay_ct, pw)], fn=wname, line=self.line_of(" %s(" % wname)))
        self.harnesses.append(dict(common, name=hn + "_lift", ctx="lift", labels=["C04B|%s|lift" % bc_lift],
                                   inputs=[("joined slot bits (%s)" % slot_t, sw)], fn=ename, line=self.line_of(" %s(" % ename)))
        self.harnesses.append(dict(common, name=hn + "_rt", ctx="roundtrip", labels=["C04B|%s+%s|roundtrip" % (bc_lower, bc_lift)],
                                   inputs=[("payload bits (%s)" % pay_ct, pw)], fn=wname + " ; " + ename, line=self.line_of(" %s(" % wname)))

    def write(self, path):
        # one entry point running every harness: a single CBMC run decides all properties.
        # REACH|all must FAIL (some execution runs all harnesses to the end) -- vacuity witness.
        tail = ["#ifndef EXPRSMT_NATIVE", "static int reached_;", "void exprsmt_all(void) {"]
        for h in self.harnesses:
            tail.append("  %s(); reached_++;" % h["name"])
        tail.append('  __CPROVER_assert(reached_ != %d, "REACH|all");' % len(self.harnesses))
        tail += ["}", "#else", "#include <stdlib.h>", "#include <string.h>",
                 "void __component_type_object_force_link_w(void) {}",
                 "int main(int argc, char **argv) {",
                 "  if (argc < 2) return 2;",
                 "  for (int i = 2; i < argc && i < 6; i++) in_[i - 2] = strtoull(argv[i], 0, 0);"]
        for h in self.harnesses:
            tail.append('  if (!strcmp(argv[1], "%s")) { %s(); return 0; }' % (h["name"], h["name"]))
        tail += ["  return 3;", "}", "#endif"]
        src = '#include "w.c"\n' + "\n".join(self.out + tail) + "\n"
        with open(path, "w") as f:
            f.write(src)
        return src


_RES = re.compile(r"^\[(?P<id>[^\]]+)\] line (?P<line>\d+) (?P<desc>.*): (?P<st>SUCCESS|FAILURE|UNKNOWN|ERROR)\s*$", re.M)


def cbmc_cmd(cdir, harness_c, fn, trace=False):
    cmd = ["cbmc", "--32", "--little-endian", "-I", CINC, "-I", cdir, harness_c, "--function", fn,
           "--unwind", "4", "--unwinding-assertions", "--no-standard-checks"]
    if trace:
        cmd.append("--trace")
    return cmd


def run_cbmc(cdir, harness_c, fn, timeout=300, trace=False):
    cmd = cbmc_cmd(cdir, harness_c, fn, trace)
    t0 = time.time()
    try:
        p = subprocess.run(cmd, stdout=subprocess.PIPE, stderr=subprocess.STDOUT, text=True, timeout=timeout, cwd=cdir)
        out, rc = p.stdout, p.returncode
    except subprocess.TimeoutExpired as e:
        out = (e.stdout.decode() if isinstance(e.stdout, bytes) else (e.stdout or "")) + "\n[TIMEOUT]"
        rc = -9
    return rc, out, time.time() - t0, " ".join(cmd)


def parse_results(out):
    """{(harness function, description): status}"""
    res = {}
    for m in _RES.finditer(out):
        res[(m.group("id").split(".")[0], m.group("desc").strip())] = m.group("st")
    return res


def trace_inputs(out, k):
    """Values of in_[0..k) from a CBMC text trace (last assignment wins): `in_[0l]=5ull (0000...)`."""
    vals = []
    for i in range(k):
        ms = re.findall(r"^\s*in_\[%d[a-z]*\]=\S+ \(([01 ]+)\)\s*$" % i, out, re.M)
        if not ms:
            return None
        vals.append(int(ms[-1].replace(" ", ""), 2))
    return vals


def build_native(cdir, harness_c, exe):
    """gcc -m64 native build of the same harness (system headers; import/export attributes are ignored)."""
    cmd = ["gcc", "-m64", "-O0", "-w", "-DEXPRSMT_NATIVE", "-I", cdir, harness_c, "-o", exe]
    p = subprocess.run(cmd, stdout=subprocess.PIPE, stderr=subprocess.STDOUT, text=True)
    return p.returncode, p.stdout, " ".join(cmd)


def run_native(exe, harness, inputs):
    p = subprocess.run([exe, harness] + ["%d" % v for v in inputs], stdout=subprocess.PIPE, stderr=subprocess.STDOUT,
                       text=True, timeout=20)
    res = {}
    for line in p.stdout.splitlines():
        m = re.match(r"^(PASS|FAIL) (.*)$", line)
        if m:
            res[m.group(2)] = m.group(1)
    return p.returncode, res, p.stdout


def generate(cdir):
    g = CGen(cdir)
    for t in probes.SCALARS:
        g.gen_scalar(t)
    for sh in probes.SHAPES + probes.C_ONLY_SHAPES:
        g.gen_variant(sh)
    hpath = os.path.join(cdir, "exprsmt_harness.c")
    g.write(hpath)
    return g, hpath
