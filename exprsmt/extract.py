"""Extraction of the emitted conversion expressions from generated sources.

Anchors: the sentinel parameter name (`xq7`), the core-call sites
(`wit_import*`, `__wasm_import_*`, `wasmImport*`, `wasm_import_*`,
`__import_*`) and the exported core entry points -- never line numbers.  Every
expected (backend, instruction, context) yields an Item; if the expression
cannot be located the Item carries `error` and the engine reports it as
inconclusive (never a violation, never skipped).
"""
from __future__ import annotations

import dataclasses
import os
import re

from . import probes
from .probes import SENTINEL, snake, upper_camel, lower_camel


@dataclasses.dataclass
class Item:
    backend: str
    prop: str            # C14 | C04B
    instr: str           # I32FromU8 ... | F32ToI64 ...
    ctx: str             # import | export
    sense: str           # lower | lift
    wit: str             # scalar WIT type, or shape id
    expr: str = ""       # extracted expression text
    in_name: str = ""    # name of the input variable inside expr
    in_type: str = ""    # its declared language/core type (text)
    sinks: list = dataclasses.field(default_factory=list)   # declared types the value is then assigned/passed to
    file: str = ""
    line: int = 0
    error: str | None = None
    pay_wit: str = ""    # C04B: WIT type of the payload
    joined: str = ""     # C04B: joined core type (i32/i64/ptr/len/p64)
    extra_env: dict = dataclasses.field(default_factory=dict)


class ExtractError(Exception):
    pass


# --------------------------------------------------------------------------
# text helpers
# --------------------------------------------------------------------------
def match_brace(s, i, open_="{", close="}"):
    """s[i] is an opening bracket; return index just after its matching close."""
    assert s[i] == open_, (s[i:i + 20], open_)
    d = 0
    j = i
    n = len(s)
    while j < n:
        c = s[j]
        if c == '"':
            j += 1
            while j < n and s[j] != '"':
                j += 2 if s[j] == "\\" else 1
        elif c == open_:
            d += 1
        elif c == close:
            d -= 1
            if d == 0:
                return j + 1
        j += 1
    raise ExtractError("unbalanced %s" % open_)


def split_top(s, sep=","):
    out, d, cur = [], 0, []
    for c in s:
        if c in "([{":
            d += 1
        elif c in ")]}":
            d -= 1
        if c == sep and d == 0:
            out.append("".join(cur).strip())
            cur = []
        else:
            cur.append(c)
    t = "".join(cur).strip()
    if t:
        out.append(t)
    return out


def line_of(s, i):
    return s.count("\n", 0, i) + 1


def find_fn(src, header_re, flags=re.M):
    """Locate a function by a regex over its header; returns (match, body incl. braces, line)."""
    m = re.search(header_re, src, flags)
    if not m:
        raise ExtractError("function header not found: /%s/" % header_re)
    b = src.index("{", m.end() - 1) if src[m.end() - 1] != "{" else m.end() - 1
    e = match_brace(src, b)
    return m, src[b:e], line_of(src, m.start())


def call_args(text, callee_re):
    """Arguments (raw text) of the first call whose callee matches callee_re."""
    m = re.search(r"(%s)\s*\(" % callee_re, text)
    if not m:
        raise ExtractError("call site not found: /%s/" % callee_re)
    o = m.end() - 1
    e = match_brace(text, o, "(", ")")
    return m.group(1), split_top(text[o + 1:e - 1]), m.start()


def one(pattern, text, what, flags=re.M):
    ms = re.findall(pattern, text, flags)
    if len(ms) != 1:
        raise ExtractError("%s: expected exactly one match of /%s/, found %d" % (what, pattern, len(ms)))
    return ms[0]


def case_block(body, label_re):
    """Text of the `case <label>: { ... }` / `<label> => { ... }` block."""
    m = re.search(label_re, body)
    if not m:
        raise ExtractError("case label not found: /%s/" % label_re)
    b = body.index("{", m.end() - 1) if body[m.end() - 1] != "{" else m.end() - 1
    e = match_brace(body, b)
    return body[b + 1:e - 1]


def strip_move(a):
    m = re.match(r"^std::move\((.*)\)$", a.strip())
    return m.group(1).strip() if m else a.strip()


def read(path):
    with open(path, encoding="utf-8") as f:
        return f.read()


# --------------------------------------------------------------------------
# per-backend extractors.  Each has: scalar(t, ctx) -> [Item(lower), Item(lift)]
# and variant(shape, sense) -> Item
# --------------------------------------------------------------------------
class Backend:
    name = "?"

    def __init__(self, root):
        self.root = root
        self.lang_of = {}      # WIT scalar -> language type text (from the f-T signatures)

    def items(self):
        out = []
        for t in probes.SCALARS:
            lower_i, lift_i, _core = probes.INSTR[t]
            for ctx in ("import", "export"):
                lo = Item(self.name, "C14", lower_i, ctx, "lower", t)
                li = Item(self.name, "C14", lift_i, ctx, "lift", t)
                try:
                    self.scalar(t, ctx, lo, li)
                except ExtractError as e:
                    for it in (lo, li):
                        if not it.expr:
                            it.error = "extraction failed: %s" % e
                except (ValueError, IndexError, KeyError) as e:
                    for it in (lo, li):
                        if not it.expr:
                            it.error = "extraction failed: %s: %s" % (type(e).__name__, e)
                out += [lo, li]
        for sh in probes.SHAPES:
            case, slot, pay, joined, bl, bli = sh["probe"]
            for sense, bc, ctx in (("lower", bl, "import"), ("lift", bli, "export")):
                it = Item(self.name, "C04B", bc, ctx, sense, sh["id"], pay_wit=pay, joined=joined)
                try:
                    self.variant(sh, sense, it)
                except ExtractError as e:
                    it.error = "extraction failed: %s" % e
                except (ValueError, IndexError, KeyError) as e:
                    it.error = "extraction failed: %s: %s" % (type(e).__name__, e)
                out.append(it)
        return out


# ------------------------------- C++ --------------------------------------
class CppB(Backend):
    name = "cpp"

    def __init__(self, root):
        Backend.__init__(self, root)
        self.f = os.path.join(root, "w.cpp")
        self.src = read(self.f)
        self.hdr = read(os.path.join(root, "w_cpp.h"))

    def import_decl(self, suffix):
        m = re.search(r"^(\S[^\n]*?)\s*\b(__wasm_import_\w*X00%s)\((.*?)\);" % re.escape(suffix), self.src, re.M)
        if not m:
            raise ExtractError("cpp: core import declaration for %s not found" % suffix)
        return m.group(2), m.group(1).strip(), [p.strip() for p in m.group(3).split(",")]

    def scalar(self, t, ctx, lo, li):
        uc = upper_camel("f-" + t)
        sn = snake("f-" + t)
        hm = re.findall(r"^\s*(\S.*?)\s+%s\((\S.*?)\s+%s\);" % (uc, SENTINEL), self.hdr, re.M)
        if not hm or len(set(hm)) != 1:
            raise ExtractError("cpp: header declaration of %s: %r" % (uc, hm))
        ret_t, par_t = hm[0]
        self.lang_of[t] = par_t
        lo.file = li.file = self.f
        if ctx == "import":
            iname, core_ret, core_params = self.import_decl(sn)
            m, body, ln = find_fn(self.src, r"^(\S.*?)\s+probe::p::sc::%s\((\S.*?)\s+%s\)\s*$" % (uc, SENTINEL))
            _, args, _ = call_args(body, re.escape(iname))
            if len(args) != 1 or len(core_params) != 1:
                raise ExtractError("cpp: expected one core argument in %s" % uc)
            rv = one(r"auto\s+(\w+)\s*=\s*%s\(" % re.escape(iname), body, "cpp result variable")
            ret = one(r"^\s*return\s+(.*);\s*$", body, "cpp return")
            lo.expr, lo.in_name, lo.in_type, lo.sinks, lo.line = args[0], SENTINEL, m.group(2), [core_params[0]], ln
            li.expr, li.in_name, li.in_type, li.sinks, li.line = ret, rv, core_ret, [m.group(1)], ln
        else:
            m, body, ln = find_fn(self.src, r"^(\S.*?)\s+(__wasm_export_\w*X23%s)\((\S.*?)\s+(\w+)\)\s*$" % re.escape(sn))
            _, args, _ = call_args(body, r"exports::probe::p::sc::%s" % uc)
            rv = one(r"auto\s+(\w+)\s*=\s*exports::probe::p::sc::%s\(" % uc, body, "cpp result variable")
            ret = one(r"^\s*return\s+(.*);\s*$", body, "cpp return")
            li.expr, li.in_name, li.in_type, li.sinks, li.line = args[0], m.group(4), m.group(3), [par_t], ln
            lo.expr, lo.in_name, lo.in_type, lo.sinks, lo.line = ret, rv, ret_t, [m.group(1)], ln

    def variant(self, sh, sense, it):
        case, slot, pay, joined, _, _ = sh["probe"]
        uc = upper_camel("g-" + sh["id"])
        vn = upper_camel("v-" + sh["id"])
        sn = snake("g-" + sh["id"])
        cn = chr(ord("A") + case)
        pm = re.findall(r"struct %s \{.*?struct %s \{ (\S.*?) value; \};" % (vn, cn), self.hdr, re.S)
        if not pm or len(set(pm)) != 1:
            raise ExtractError("cpp: payload type of %s::%s" % (vn, cn))
        pay_t = pm[0]
        it.file = self.f
        if sense == "lower":
            iname, _, core_params = self.import_decl(sn)
            m, body, ln = find_fn(self.src, r"^(\S.*?)\s+probe::p::vr::%s\((\S.*?)\s+%s\)\s*$" % (uc, SENTINEL))
            _, args, _ = call_args(body, re.escape(iname))
            var = strip_move(args[1 + slot])
            decl_t = one(r"^\s*(\S[^\n;=]*?)\s*\b%s;" % re.escape(var), body, "cpp slot declaration")
            blk = case_block(body, r"case %d:\s*\{" % case)
            pv = one(r"auto&\s+(\w+)\s*=\s*std::get<\w+::%s>\(%s\.variants\)\.value;" % (cn, SENTINEL), blk, "cpp payload binding")
            ex = one(r"^\s*%s\s*=\s*(.*);\s*$" % re.escape(var), blk, "cpp slot assignment")
            it.expr, it.in_name, it.in_type, it.sinks, it.line = ex, pv, pay_t, [decl_t, core_params[1 + slot]], ln
        else:
            m, body, ln = find_fn(self.src, r"^(\S.*?)\s+(__wasm_export_\w*X23%s)\((.*?)\)\s*$" % re.escape(sn))
            params = [p.strip().rsplit(" ", 1) for p in split_top(m.group(3))]
            blk = case_block(body, r"case %d:\s*\{" % case)
            mm = re.search(r"::%s\{" % cn, blk)
            if not mm:
                raise ExtractError("cpp: payload constructor ::%s{ not found" % cn)
            e = match_brace(blk, mm.end() - 1)
            it.expr = blk[mm.end():e - 1].strip()
            it.in_name, it.in_type = params[1 + slot][1], params[1 + slot][0].strip()
            it.sinks, it.line = [pay_t], ln


# ------------------------------- C# ---------------------------------------
class CSharpB(Backend):
    name = "csharp"

    def __init__(self, root):
        Backend.__init__(self, root)
        self.files = {}
        for fn in os.listdir(root):
            if fn.endswith(".cs"):
                self.files[fn] = read(os.path.join(root, fn))

    def pick(self, frag):
        c = [k for k in self.files if frag in k]
        if len(c) != 1:
            raise ExtractError("csharp: expected one file matching %s, found %r" % (frag, c))
        return os.path.join(self.root, c[0]), self.files[c[0]]

    def scalar(self, t, ctx, lo, li):
        uc = upper_camel("f-" + t)
        if ctx == "import":
            f, src = self.pick("Imports.probe.p.IScImports")
            _, isrc = self.pick("Imports.probe.p.ScImportsInterop")
            d = one(r"public static extern (\S+) wasmImport%s\((\S+) p0\);" % uc, isrc, "csharp core import declaration")
            m, body, ln = find_fn(src, r"public static unsafe (\S+) %s\((\S+) %s\)\s*$" % (uc, SENTINEL))
            self.lang_of[t] = m.group(2)
            _, args, _ = call_args(body, r"wasmImport%s" % uc)
            rv = one(r"var\s+(\w+)\s*=\s*\S*wasmImport%s\(" % uc, body, "csharp result variable")
            ret = one(r"^\s*return\s+(.*);\s*$", body, "csharp return")
            lo.file = li.file = f
            lo.expr, lo.in_name, lo.in_type, lo.sinks, lo.line = args[0], SENTINEL, m.group(2), [d[1]], ln
            li.expr, li.in_name, li.in_type, li.sinks, li.line = ret, rv, d[0], [m.group(1)], ln
        else:
            f, src = self.pick("Exports.probe.p.ScExportsInterop")
            _, isrc = self.pick("Exports.probe.p.IScExports")
            sig = one(r"static abstract (\S+) %s\((\S+) %s\);" % (uc, SENTINEL), isrc, "csharp exported interface method")
            m, body, ln = find_fn(src, r"public static unsafe (\S+) wasmExport%s\((\S+) (\w+)\)\s*\{" % uc)
            _, args, _ = call_args(body, r"ScExportsImpl\.%s" % uc)
            rdecl = one(r"^\s*(?!return\b)(\S+)\s+(\w+);\s*$", body, "csharp result declaration")
            if not re.search(r"^\s*%s\s*=\s*ScExportsImpl\.%s\(" % (rdecl[1], uc), body, re.M):
                raise ExtractError("csharp: result variable is not assigned from the implementation call")
            ret = one(r"^\s*return\s+(.*);\s*$", body, "csharp return")
            lo.file = li.file = f
            li.expr, li.in_name, li.in_type, li.sinks, li.line = args[0], m.group(3), m.group(2), [sig[1]], ln
            lo.expr, lo.in_name, lo.in_type, lo.sinks, lo.line = ret, rdecl[1], rdecl[0], [m.group(1)], ln
            if rdecl[0] != sig[0]:
                raise ExtractError("csharp: result declared %s but the interface returns %s" % (rdecl[0], sig[0]))

    def variant(self, sh, sense, it):
        case, slot, pay, joined, _, _ = sh["probe"]
        uc = upper_camel("g-" + sh["id"])
        vn = upper_camel("v-" + sh["id"])
        cn = chr(ord("A") + case)
        if sense == "lower":
            f, src = self.pick("Imports.probe.p.IVrImports")
            _, isrc = self.pick("Imports.probe.p.VrImportsInterop")
            d = one(r"public static extern \S+ wasmImport%s\((.*?)\);" % uc, isrc, "csharp core import declaration")
            core_params = [p.strip().split(" ")[0] for p in d.split(",")]
            m, body, ln = find_fn(src, r"public static unsafe \S+ %s\(\S+ %s\)\s*$" % (uc, SENTINEL))
            _, args, _ = call_args(body, r"wasmImport%s" % uc)
            var = args[1 + slot]
            decl_t = one(r"^\s*(\S+)\s+%s;\s*$" % re.escape(var), body, "csharp slot declaration")
            blk = case_block(body, r"case %d:\s*\{" % case)
            pd = one(r"^\s*(\S+)\s+(\w+)\s*=\s*%s\.As%s;" % (SENTINEL, cn), blk, "csharp payload binding")
            ex = one(r"^\s*%s\s*=\s*(.*);\s*$" % re.escape(var), blk, "csharp slot assignment")
            it.file = f
            it.expr, it.in_name, it.in_type, it.sinks, it.line = ex, pd[1], pd[0], [decl_t, core_params[1 + slot]], ln
        else:
            f, src = self.pick("Exports.probe.p.VrExportsInterop")
            _, isrc = self.pick("Exports.probe.p.IVrExports")
            pt = one(r"public static %s %s\((\S+) \w+\)" % (vn, cn), isrc, "csharp payload constructor")
            m, body, ln = find_fn(src, r"public static unsafe \S+ wasmExport%s\((.*?)\)\s*\{" % uc)
            params = [p.strip().rsplit(" ", 1) for p in split_top(m.group(1))]
            blk = case_block(body, r"case %d:\s*\{" % case)
            _, args, _ = call_args(blk, r"%s\.%s" % (vn, cn))
            it.file = f
            it.expr, it.in_name, it.in_type = args[0], params[1 + slot][1], params[1 + slot][0]
            it.sinks, it.line = [pt], ln


# ------------------------------- Go ---------------------------------------
class GoB(Backend):
    name = "go"

    def __init__(self, root):
        Backend.__init__(self, root)
        self.fsc = os.path.join(root, "probe_p_sc", "wit_bindings.go")
        self.fvr = os.path.join(root, "probe_p_vr", "wit_bindings.go")
        self.fex = os.path.join(root, "wit_exports.go")
        self.sc, self.vr, self.ex = read(self.fsc), read(self.fvr), read(self.fex)

    @staticmethod
    def fold_bool(body, var):
        """`var V T; if C { V = 1 } else { V = 0 }` -> conditional expression text, or None."""
        m = re.search(r"var\s+%s\s+(\w+)\s*\n\s*if\s+(.*?)\s*\{\s*%s\s*=\s*(\S+)\s*\}\s*else\s*\{\s*%s\s*=\s*(\S+)\s*\}"
                      % (re.escape(var), re.escape(var), re.escape(var)), body)
        if not m:
            return None
        return m.group(1), m.group(2), m.group(3), m.group(4)

    def scalar(self, t, ctx, lo, li):
        uc = upper_camel("f-" + t)
        sn = snake("f-" + t)
        if ctx == "import":
            d = one(r"^func wasm_import_%s\(arg0 (\w+)\) (\w+)\s*$" % sn, self.sc, "go core import declaration")
            m, body, ln = find_fn(self.sc, r"^func %s\(%s (\w+)\) (\w+) \{" % (uc, SENTINEL))
            self.lang_of[t] = m.group(1)
            _, args, _ = call_args(body, r"wasm_import_%s" % sn)
            rv = one(r"(\w+)\s*:=\s*wasm_import_%s\(" % sn, body, "go result variable")
            ret = one(r"^\s*return\s+(.*?)\s*$", body, "go return")
            lo.file = li.file = self.fsc
            arg = args[0]
            fb = self.fold_bool(body, arg) if re.match(r"^\w+$", arg) and arg != SENTINEL else None
            if fb:
                lo.expr = "__ite(%s, %s(%s), %s(%s))" % (fb[1], fb[0], fb[2], fb[0], fb[3])
            else:
                lo.expr = arg
            lo.in_name, lo.in_type, lo.sinks, lo.line = SENTINEL, m.group(1), [d[0]], ln
            li.expr, li.in_name, li.in_type, li.sinks, li.line = ret, rv, d[1], [m.group(2)], ln
        else:
            m, body, ln = find_fn(self.ex, r"^func wasm_export_probe_p_sc_%s\((\w+) (\w+)\) (\w+) \{" % sn)
            lang_t = self.lang_of.get(t)
            if not lang_t:
                raise ExtractError("go: language type of %s unknown (import wrapper not extracted)" % t)
            _, args, _ = call_args(body, r"export_probe_p_sc\.%s" % uc)
            rv = one(r"(\w+)\s*:=\s*export_probe_p_sc\.%s\(" % uc, body, "go result variable")
            ret = one(r"^\s*return\s+(.*?)\s*$", body, "go return")
            lo.file = li.file = self.fex
            li.expr, li.in_name, li.in_type, li.sinks, li.line = args[0], m.group(1), m.group(2), [lang_t], ln
            fb = self.fold_bool(body, ret) if re.match(r"^\w+$", ret) and ret != rv else None
            if fb:
                lo.expr = "__ite(%s, %s(%s), %s(%s))" % (fb[1], fb[0], fb[2], fb[0], fb[3])
            else:
                lo.expr = ret
            lo.in_name, lo.in_type, lo.sinks, lo.line = rv, lang_t, [m.group(3)], ln

    def variant(self, sh, sense, it):
        case, slot, pay, joined, _, _ = sh["probe"]
        uc = upper_camel("g-" + sh["id"])
        vn = upper_camel("v-" + sh["id"])
        sn = snake("g-" + sh["id"])
        cn = chr(ord("A") + case)
        pay_t = self.lang_of.get(pay)
        if not pay_t:
            raise ExtractError("go: language type of %s unknown" % pay)
        if sense == "lower":
            d = one(r"^func wasm_import_%s\((.*?)\)\s*$" % sn, self.vr, "go core import declaration")
            core_params = [p.strip().split(" ")[1] for p in d.split(",")]
            m, body, ln = find_fn(self.vr, r"^func %s\(%s \w+\) \w+ \{" % (uc, SENTINEL))
            _, args, _ = call_args(body, r"wasm_import_%s" % sn)
            var = args[1 + slot]
            decl_t = one(r"^\s*var\s+%s\s+(\w+)\s*$" % re.escape(var), body, "go slot declaration")
            mm = re.search(r"^case %s%s:\s*$(.*?)^(?:case |default:)" % (vn, cn), body, re.M | re.S)
            if not mm:
                raise ExtractError("go: case %s%s not found" % (vn, cn))
            blk = mm.group(1)
            pv = one(r"^\s*(\w+)\s*:=\s*%s\.%s\(\)\s*$" % (SENTINEL, cn), blk, "go payload binding")
            ex = one(r"^\s*%s\s*=\s*(.*?)\s*$" % re.escape(var), blk, "go slot assignment")
            it.file = self.fvr
            it.expr, it.in_name, it.in_type, it.sinks, it.line = ex, pv, pay_t, [decl_t, core_params[1 + slot]], ln
        else:
            m, body, ln = find_fn(self.ex, r"^func wasm_export_probe_p_vr_%s\((.*?)\) \w+ \{" % sn)
            params = [p.strip().split(" ") for p in m.group(1).split(",")]
            mm = re.search(r"^case %d:\s*$(.*?)^(?:case |default:)" % case, body, re.M | re.S)
            if not mm:
                raise ExtractError("go: case %d not found" % case)
            _, args, _ = call_args(mm.group(1), r"probe_p_vr\.Make%s%s" % (vn, cn))
            it.file = self.fex
            it.expr, it.in_name, it.in_type = args[0], params[1 + slot][0], params[1 + slot][1]
            it.sinks, it.line = [pay_t], ln


# ------------------------------- D ----------------------------------------
class DB(Backend):
    name = "d"

    def __init__(self, root):
        Backend.__init__(self, root)
        w = os.path.join(root, "wit", "probe", "p")
        self.fsci, self.fsce = os.path.join(w, "sc", "imports.d"), os.path.join(w, "sc", "exports.d")
        self.fvri, self.fvre = os.path.join(w, "vr", "imports.d"), os.path.join(w, "vr", "exports.d")
        self.sci, self.sce, self.vri, self.vre = read(self.fsci), read(self.fsce), read(self.fvri), read(self.fvre)
        self.common = read(os.path.join(root, "wit", "common.d"))

    def scalar(self, t, ctx, lo, li):
        lc = lower_camel("f-" + t)
        if ctx == "import":
            d = one(r"private extern\(C\) (\S+) __import_%s\((\S+)\)" % lc, self.sci, "d core import declaration")
            m, body, ln = find_fn(self.sci, r"^(\S+) %s\((\S+) %s\) [^\n{]*\{" % (lc, SENTINEL))
            self.lang_of[t] = m.group(2)
            _, args, _ = call_args(body, r"__import_%s" % lc)
            rv = one(r"auto\s+(\w+)\s*=\s*__import_%s\(" % lc, body, "d result variable")
            ret = one(r"^\s*return\s+(.*);\s*$", body, "d return")
            lo.file = li.file = self.fsci
            lo.expr, lo.in_name, lo.in_type, lo.sinks, lo.line = args[0], SENTINEL, m.group(2), [d[1]], ln
            li.expr, li.in_name, li.in_type, li.sinks, li.line = ret, rv, d[0], [m.group(1)], ln
        else:
            sig = one(r"alias %s_Sig = (\S+) function\((\S+) %s\);" % (lc, SENTINEL), self.sce, "d export signature alias")
            m, body, ln = find_fn(self.sce, r"private extern\(C\) (\S+) __export_%s\((\S+) (\w+)\) \{" % lc)
            _, args, _ = call_args(body, r"%s_Impl" % lc)
            rv = one(r"auto\s+(\w+)\s*=\s*%s_Impl\(" % lc, body, "d result variable")
            ret = one(r"^\s*return\s+(.*);\s*$", body, "d return")
            lo.file = li.file = self.fsce
            li.expr, li.in_name, li.in_type, li.sinks, li.line = args[0], m.group(3), m.group(2), [sig[1]], ln
            lo.expr, lo.in_name, lo.in_type, lo.sinks, lo.line = ret, rv, sig[0], [m.group(1)], ln

    def variant(self, sh, sense, it):
        case, slot, pay, joined, _, _ = sh["probe"]
        lc = lower_camel("g-" + sh["id"])
        vn = upper_camel("v-" + sh["id"])
        cn = chr(ord("a") + case)
        if sense == "lower":
            d = one(r"private extern\(C\) \S+ __import_%s\((.*?)\) nothrow;" % lc, self.vri, "d core import declaration")
            core_params = [p.strip() for p in d.split(",")]
            m, body, ln = find_fn(self.vri, r"^%s %s\(in %s %s\) [^\n{]*\{" % (vn, lc, vn, SENTINEL))
            _, args, _ = call_args(body, r"__import_%s" % lc)
            var = args[1 + slot]
            decl_t = one(r"^\s*(\S+)\s+%s\s*=\s*void;\s*$" % re.escape(var), body, "d slot declaration")
            blk = case_block(body, r"case _Tag\d+\.%s:\s*\{" % cn)
            pd = one(r"const ref (\S+) (\w+) = %s\.get%s\(\);" % (SENTINEL, cn.upper()), blk, "d payload binding")
            ex = one(r"^\s*%s\s*=\s*(.*);\s*$" % re.escape(var), blk, "d slot assignment")
            it.file = self.fvri
            it.expr, it.in_name, it.in_type, it.sinks, it.line = ex, pd[1], pd[0], [decl_t, core_params[1 + slot]], ln
        else:
            pay_t = self.lang_of.get(pay)
            if not pay_t:
                raise ExtractError("d: language type of %s unknown" % pay)
            m, body, ln = find_fn(self.vre, r"private extern\(C\) \S+ __export_%s\((.*?)\) \{" % lc)
            params = [p.strip().rsplit(" ", 1) for p in split_top(m.group(1))]
            blk = case_block(body, r"case _Tag\d+\.%s:\s*\{" % cn)
            pd = one(r"^\s*auto\s+(\w+)\s*=\s*(.*);\s*$", blk, "d payload binding")
            if not re.search(r"%s\.%s\(%s\)" % (vn, cn, re.escape(pd[0])), blk):
                raise ExtractError("d: payload variable does not reach %s.%s(..)" % (vn, cn))
            it.file = self.fvre
            it.expr, it.in_name, it.in_type = pd[1], params[1 + slot][1], params[1 + slot][0]
            it.sinks, it.line = [pay_t], ln


# ------------------------------- MoonBit ----------------------------------
class MoonBitB(Backend):
    name = "moonbit"

    def __init__(self, root):
        Backend.__init__(self, root)
        i = os.path.join(root, "interface", "probe", "p")
        g = os.path.join(root, "gen", "interface", "probe", "p")
        self.fsc_top, self.fsc_ffi = os.path.join(i, "sc", "top.mbt"), os.path.join(i, "sc", "ffi.mbt")
        self.fvr_top, self.fvr_ffi = os.path.join(i, "vr", "top.mbt"), os.path.join(i, "vr", "ffi.mbt")
        self.fgsc, self.fgvr = os.path.join(g, "sc", "ffi.mbt"), os.path.join(g, "vr", "ffi.mbt")
        self.sc_top, self.sc_ffi = read(self.fsc_top), read(self.fsc_ffi)
        self.vr_top, self.vr_ffi = read(self.fvr_top), read(self.fvr_ffi)
        self.gsc, self.gvr = read(self.fgsc), read(self.fgvr)

    def wasm_helpers(self):
        """{name: wat text} of `extern "wasm" fn name(..) -> Int = #|(func ...)` items in all generated files."""
        out = {}
        for src in (self.sc_ffi, self.vr_ffi, self.gsc, self.gvr, self.sc_top, self.vr_top):
            for m in re.finditer(r'extern "wasm" fn (\w+)\((.*?)\)\s*(?:->\s*(\w+))?\s*=\s*\n((?:\s*#\|.*\n?)+)', src):
                wat = " ".join(l.strip()[2:] for l in m.group(4).strip().splitlines())
                if m.group(1) in out and out[m.group(1)] != wat:
                    raise ExtractError("moonbit: helper %s has two different bodies" % m.group(1))
                out[m.group(1)] = wat
        return out

    def scalar(self, t, ctx, lo, li):
        uc = upper_camel("f-" + t)
        sn = snake("f-" + t)
        if ctx == "import":
            d = one(r"^fn wasmImport%s\(p0 : (\w+)\) -> (\w+) =" % uc, self.sc_ffi, "moonbit core import declaration")
            m, body, ln = find_fn(self.sc_top, r"^pub fn %s\(%s : (\w+)\) -> (\w+) \{" % (sn, SENTINEL))
            self.lang_of[t] = m.group(1)
            _, args, _ = call_args(body, r"wasmImport%s" % uc)
            rd = one(r"let\s+(\w+)\s*:\s*(\w+)\s*=\s*wasmImport%s\(" % uc, body, "moonbit result binding")
            rb = one(r"^\s*let\s+(\w+)\s*=\s*(.*?)\s*$", body, "moonbit lifted binding")
            one(r"^\s*return\s+%s\s*$" % rb[0], body, "moonbit return of the lifted binding")
            if rd[1] != d[1]:
                raise ExtractError("moonbit: result annotated %s but the import returns %s" % (rd[1], d[1]))
            lo.file = li.file = self.fsc_top
            lo.expr, lo.in_name, lo.in_type, lo.sinks, lo.line = args[0], SENTINEL, m.group(1), [d[0]], ln
            li.expr, li.in_name, li.in_type, li.sinks, li.line = rb[1], rd[0], rd[1], [m.group(2)], ln
        else:
            lang_t = self.lang_of.get(t)
            if not lang_t:
                raise ExtractError("moonbit: language type of %s unknown" % t)
            m, body, ln = find_fn(self.gsc, r"^pub fn wasmExport%s\((\w+) : (\w+)\) -> (\w+) \{" % uc)
            _, args, _ = call_args(body, r"\b%s" % sn)
            rd = one(r"let\s+\((\w+)\)\s*:\s*\((\w+)\)\s*=\s*%s\(" % sn, body, "moonbit result binding")
            rb = one(r"^\s*let\s+(\w+)\s*=\s*(.*?)\s*$", body, "moonbit lowered binding")
            one(r"^\s*return\s+%s\s*$" % rb[0], body, "moonbit return of the lowered binding")
            lo.file = li.file = self.fgsc
            li.expr, li.in_name, li.in_type, li.sinks, li.line = args[0], m.group(1), m.group(2), [lang_t], ln
            lo.expr, lo.in_name, lo.in_type, lo.sinks, lo.line = rb[1], rd[0], rd[1], [m.group(3)], ln
            if rd[1] != lang_t:
                raise ExtractError("moonbit: export result annotated %s, import uses %s" % (rd[1], lang_t))

    def variant(self, sh, sense, it):
        case, slot, pay, joined, _, _ = sh["probe"]
        uc = upper_camel("g-" + sh["id"])
        vn = upper_camel("v-" + sh["id"])
        sn = snake("g-" + sh["id"])
        cn = chr(ord("A") + case)
        pay_t = one(r"pub\(all\) enum %s \{[^}]*?\b%s\((\w+)\)" % (vn, cn), self.vr_top, "moonbit payload type")
        if sense == "lower":
            d = one(r"^fn wasmImport%s\((.*?)\)\s*(?:->\s*\w+)?\s*=" % uc, self.vr_ffi, "moonbit core import declaration")
            core_params = [p.split(":")[1].strip() for p in d.split(",")]
            m, body, ln = find_fn(self.vr_top, r"^pub fn %s\(%s : %s\) -> %s \{" % (sn, SENTINEL, vn, vn))
            _, args, _ = call_args(body, r"wasmImport%s" % uc)
            tup = one(r"let\s+\(([\w, ]+)\)\s*=\s*match %s \{" % SENTINEL, body, "moonbit lowered tuple binding")
            names = [x.strip() for x in tup.split(",") if x.strip()]
            if names != args[:len(names)]:
                raise ExtractError("moonbit: lowered tuple %r is not what is passed to the import %r" % (names, args))
            mm = re.search(r"\b%s\((\w+)\)\s*=>\s*\{" % cn, body)
            if not mm:
                raise ExtractError("moonbit: match arm %s(..) not found" % cn)
            e = match_brace(body, mm.end() - 1)
            blk = body[mm.end():e - 1].strip()
            if not (blk.startswith("(") and match_brace(blk, 0, "(", ")") == len(blk)):
                raise ExtractError("moonbit: arm body is not a single tuple expression: %r" % blk[:80])
            parts = split_top(blk[1:-1])
            if len(parts) != len(names):
                raise ExtractError("moonbit: tuple arity mismatch")
            it.file = self.fvr_top
            it.expr, it.in_name, it.in_type, it.sinks, it.line = parts[1 + slot], mm.group(1), pay_t, [core_params[1 + slot]], ln
        else:
            m, body, ln = find_fn(self.gvr, r"^pub fn wasmExport%s\((.*?)\) -> \w+ \{" % uc)
            params = [[x.strip() for x in p.split(":")] for p in m.group(1).split(",")]
            mm = re.search(r"^\s*%d\s*=>\s*\{" % case, body, re.M)
            if not mm:
                raise ExtractError("moonbit: match arm %d not found" % case)
            e = match_brace(body, mm.end() - 1)
            _, args, _ = call_args(body[mm.end():e - 1], r"%s::%s" % (vn, cn))
            it.file = self.fgvr
            it.expr, it.in_name, it.in_type = args[0], params[1 + slot][0], params[1 + slot][1]
            it.sinks, it.line = [pay_t], ln


# ------------------------------- Rust -------------------------------------
class RustB(Backend):
    name = "rust"

    def __init__(self, root):
        Backend.__init__(self, root)
        self.f = os.path.join(root, "w.rs")
        self.src = read(self.f)

    def rt_module(self):
        m = re.search(r"^mod _rt \{", self.src, re.M)
        if not m:
            raise ExtractError("rust: `mod _rt` not found")
        e = match_brace(self.src, m.end() - 1)
        return self.src[m.start():e]

    def scalar(self, t, ctx, lo, li):
        sn = snake("f-" + t)
        lo.file = li.file = self.f
        if ctx == "import":
            m, body, ln = find_fn(self.src, r"pub fn %s\(%s: (\S+?),\) -> (\S+?)\s*\{" % (sn, SENTINEL))
            self.lang_of[t] = m.group(1)
            decls = re.findall(r"fn (wit_import\d+)\(_: (\S+?), \) -> (\S+?)[; ]", body)
            if not decls or len(set(decls)) != 1:
                raise ExtractError("rust: core import declarations disagree or are missing: %r" % decls)
            iname, core_p, core_r = decls[0]
            if not re.search(r"fn %s\(_: \S+?, \) -> \S+ \{ unreachable!\(\) \}" % iname, body):
                raise ExtractError("rust: native shim of %s not found" % iname)
            mm = re.search(r"let\s+(\w+)\s*=\s*%s\(" % iname, body)
            if not mm:
                raise ExtractError("rust: core call site not found")
            o = mm.end() - 1
            e = match_brace(body, o, "(", ")")
            args = split_top(body[o + 1:e - 1])
            rest = body[e:]
            rm = re.match(r"^;\s*(.*?)\s*\}\s*\}\s*$", rest, re.S)
            if not rm:
                raise ExtractError("rust: tail expression after the core call not found")
            lo.expr, lo.in_name, lo.in_type, lo.sinks, lo.line = args[0], SENTINEL, m.group(1), [core_p], ln
            li.expr, li.in_name, li.in_type, li.sinks, li.line = rm.group(1), mm.group(1), core_r, [m.group(2)], ln
        else:
            lang_t = self.lang_of.get(t)
            if not lang_t:
                raise ExtractError("rust: language type of %s unknown" % t)
            m, body, ln = find_fn(self.src, r"pub unsafe fn _export_%s_cabi<T_: Guest>\((\w+): (\S+?),\) -> (\S+?) \{" % sn)
            _, args, _ = call_args(body, r"T_::%s" % sn)
            rm = re.search(r"let\s+(\w+)\s*=\s*\{\s*T_::%s\(" % sn, body)
            if not rm:
                raise ExtractError("rust: result binding not found")
            b = body.index("{", rm.start())
            e = match_brace(body, b)
            tail = re.match(r"^;\s*(.*?)\s*\}\s*\}\s*$", body[e:], re.S)
            if not tail:
                raise ExtractError("rust: tail expression of the export glue not found")
            tsig = one(r"^\s*fn %s\(%s: (\S+?),\) -> (\S+?);" % (sn, SENTINEL), self.src, "rust Guest trait method")
            li.expr, li.in_name, li.in_type, li.sinks, li.line = args[0], m.group(1), m.group(2), [tsig[0]], ln
            lo.expr, lo.in_name, lo.in_type, lo.sinks, lo.line = tail.group(1), rm.group(1), tsig[1], [m.group(3)], ln

    def variant(self, sh, sense, it):
        case, slot, pay, joined, _, _ = sh["probe"]
        vn = upper_camel("v-" + sh["id"])
        sn = snake("g-" + sh["id"])
        cn = chr(ord("A") + case)
        pts = set(re.findall(r"pub enum %s \{\s*%s\((\w+)\)," % (vn, cn), self.src, re.S))
        if len(pts) != 1:
            raise ExtractError("rust: payload type of %s::%s: %r" % (vn, cn, pts))
        pay_t = pts.pop()
        it.file = self.f
        if sense == "lower":
            m, body, ln = find_fn(self.src, r"pub fn %s\(%s: &?%s,\) -> %s\s*\{" % (sn, SENTINEL, vn, vn))
            decls = re.findall(r"fn (wit_import\d+)\((.*?)\)\s*[;{]", body)
            if not decls or len(set(decls)) != 1:
                raise ExtractError("rust: core import declarations disagree or are missing: %r" % decls)
            iname, ps = decls[0]
            core_params = [p.split(":", 1)[1].strip() for p in split_top(ps)]
            _, args, _ = call_args(body, r"(?<!fn )%s" % iname)
            tup = one(r"let\s+\(([\w, ]+)\)\s*=\s*match %s \{" % SENTINEL, body, "rust lowered tuple binding")
            names = [x.strip() for x in tup.split(",") if x.strip()]
            if names != args[:len(names)]:
                raise ExtractError("rust: lowered tuple %r is not what is passed to the import %r" % (names, args))
            mm = re.search(r"%s::%s\((\w+)\)\s*=>\s*\(" % (vn, cn), body)
            if not mm:
                raise ExtractError("rust: match arm %s::%s(..) => (..) not found" % (vn, cn))
            e = match_brace(body, mm.end() - 1, "(", ")")
            parts = split_top(body[mm.end():e - 1])
            it.expr, it.in_name, it.in_type, it.sinks, it.line = parts[1 + slot], mm.group(1), pay_t, [core_params[1 + slot]], ln
            if SENTINEL + ": &" in m.group(0):
                it.extra_env["by_ref"] = True
        else:
            m, body, ln = find_fn(self.src, r"pub unsafe fn _export_%s_cabi<T_: Guest>\((.*?)\) -> [^{;]+? \{" % sn)
            params = [[x.strip() for x in p.split(":", 1)] for p in split_top(m.group(1))]
            blk = case_block(body, r"\b%d\s*=>\s*\{" % case)
            pd = one(r"^\s*let\s+(\w+)\s*=\s*(.*);\s*$", blk, "rust payload binding")
            if not re.search(r"%s::%s\(%s\)" % (vn, cn, pd[0]), blk):
                raise ExtractError("rust: payload variable does not reach %s::%s(..)" % (vn, cn))
            it.expr, it.in_name, it.in_type = pd[1], params[1 + slot][0], params[1 + slot][1]
            it.sinks, it.line = [pay_t], ln


BACKENDS = {"cpp": CppB, "csharp": CSharpB, "go": GoB, "d": DB, "moonbit": MoonBitB, "rust": RustB}
