"""Bit-vector terms: one representation, two interpretations.

Every term is a fixed-width bit-vector.  Conditions are 1-bit vectors.  The
same DAG is (a) printed as SMT-LIB 2 (QF_BV) for z3/cvc5 and (b) evaluated
concretely on Python integers -- (b) is the replay / exhaustive-narrow path and
the cross-check of (a): a `sat` model is only believed if (b) reproduces it.
"""
from __future__ import annotations



import hashlib
import struct
from fractions import Fraction

FP_FMT = {32: (8, 24), 64: (11, 53)}


def fp_decode(bits, w):
    """bit pattern -> ('nan',) | ('inf', sign) | ('num', Fraction)"""
    eb, sb = FP_FMT[w]
    sign = (bits >> (w - 1)) & 1
    e = (bits >> (sb - 1)) & ((1 << eb) - 1)
    m = bits & ((1 << (sb - 1)) - 1)
    bias = (1 << (eb - 1)) - 1
    if e == (1 << eb) - 1:
        return ("nan",) if m else ("inf", sign)
    if e == 0:
        v = Fraction(m, 1 << (sb - 1)) * Fraction(2) ** (1 - bias)
    else:
        v = (1 + Fraction(m, 1 << (sb - 1))) * Fraction(2) ** (e - bias)
    return ("num", -v if sign else v, sign)


def fp_round(sign, mag, w):
    """Round the non-negative rational `mag` to format w, round-to-nearest-even; returns the bit pattern."""
    eb, sb = FP_FMT[w]
    bias = (1 << (eb - 1)) - 1
    sbit = sign << (w - 1)
    if mag == 0:
        return sbit
    # find e with 2^e <= mag < 2^(e+1)
    n, d = mag.numerator, mag.denominator
    e = n.bit_length() - d.bit_length()
    if Fraction(2) ** e > mag:
        e -= 1
    elif Fraction(2) ** (e + 1) <= mag:
        e += 1
    e = max(e, 1 - bias)                       # subnormal range shares the smallest exponent
    q = mag / Fraction(2) ** (e - (sb - 1))    # significand scaled to an integer with sb bits
    f = q.numerator // q.denominator
    rem = q - f
    if rem > Fraction(1, 2) or (rem == Fraction(1, 2) and (f & 1)):
        f += 1
    if f >= (1 << sb):
        f >>= 1
        e += 1
    if f < (1 << (sb - 1)):                    # subnormal (or zero)
        return sbit | f
    if e > bias:
        return sbit | (((1 << eb) - 1) << (sb - 1))          # overflow -> infinity
    return sbit | ((e + bias) << (sb - 1)) | (f & ((1 << (sb - 1)) - 1))


def fp_convert(bits, fb, tb):
    """IEEE 754 format conversion, round-to-nearest-even.  A NaN becomes the quiet NaN with the sign and the top payload
    bits kept (what x86/ARM hardware does); wasm leaves the payload nondeterministic -- obligations exclude NaN inputs."""
    d = fp_decode(bits, fb)
    eb, sb = FP_FMT[tb]
    sign = (bits >> (fb - 1)) & 1
    if d[0] == "nan":
        fsb = FP_FMT[fb][1]
        pay = bits & ((1 << (fsb - 1)) - 1)
        pay = pay >> (fsb - sb) if fsb >= sb else pay << (sb - fsb)
        return (sign << (tb - 1)) | (((1 << eb) - 1) << (sb - 1)) | (1 << (sb - 2)) | pay
    if d[0] == "inf":
        return (sign << (tb - 1)) | (((1 << eb) - 1) << (sb - 1))
    return fp_round(sign, abs(d[1]), tb)


def int_to_fp(v, w, signed, tb):
    if signed:
        v = to_signed(v, w)
    return fp_round(1 if v < 0 else 0, Fraction(abs(v)), tb)


def fp_in_range(bits, fb, tw, signed):
    d = fp_decode(bits, fb)
    if d[0] != "num":
        return 0
    t = int(d[1])                                # truncation toward zero
    lo, hi = (-(1 << (tw - 1)), (1 << (tw - 1)) - 1) if signed else (0, (1 << tw) - 1)
    return 1 if lo <= t <= hi else 0


def fp_to_int(bits, fb, tw, signed, policy):
    """truncate toward zero; out of range / NaN: 'sat' saturates (NaN -> 0), 'raw' returns 0 (callers guard it)."""
    d = fp_decode(bits, fb)
    lo, hi = (-(1 << (tw - 1)), (1 << (tw - 1)) - 1) if signed else (0, (1 << tw) - 1)
    if d[0] == "nan":
        return 0
    if d[0] == "inf":
        t = lo - 1 if d[1] else hi + 1
    else:
        t = int(d[1])
    if lo <= t <= hi:
        return t & mask(tw)
    if policy == "sat":
        return (lo if t < lo else hi) & mask(tw)
    return 0


def _fp_lit(bits, w):
    eb, sb = FP_FMT[w]
    return "((_ to_fp %d %d) #x%0*x)" % (eb, sb, w // 4, bits)


def _as_fp(t):
    eb, sb = FP_FMT[t.w]
    return "((_ to_fp %d %d) %s)" % (eb, sb, t.smt())


def _range_bounds(fb, tw, signed):
    """(strict?, lower literal bits, upper literal bits): in range  <=>  lower (<|<=) f  and  f < upper."""
    sb = FP_FMT[fb][1]
    hi = fp_round(0, Fraction(1 << (tw - 1 if signed else tw)), fb)          # 2^(w-1) / 2^w, exact
    if not signed:
        return True, fp_round(1, Fraction(1), fb), hi                        # -1 < f
    if tw <= sb:                                                             # 2^(w-1)+1 is representable
        return True, fp_round(1, Fraction((1 << (tw - 1)) + 1), fb), hi
    return False, fp_round(1, Fraction(1 << (tw - 1)), fb), hi               # -2^(w-1) <= f


def mask(w: int) -> int:
    return (1 << w) - 1


def to_signed(v: int, w: int) -> int:
    v &= mask(w)
    return v - (1 << w) if v >> (w - 1) else v


class T:
    __slots__ = ("op", "args", "w", "val", "name")

    def __init__(self, op, args=(), w=0, val=None, name=None):
        self.op = op
        self.args = tuple(args)
        self.w = w
        self.val = val
        self.name = name

    # ---- SMT-LIB ----------------------------------------------------
    def smt(self) -> str:
        o, a = self.op, self.args
        if o == "var":
            return self.name
        if o == "const":
            if self.w % 4 == 0:
                return "#x%0*x" % (self.w // 4, self.val & mask(self.w))
            return "#b" + format(self.val & mask(self.w), "0%db" % self.w)
        if o == "extract":
            hi, lo = self.val
            return "((_ extract %d %d) %s)" % (hi, lo, a[0].smt())
        if o == "zext":
            return "((_ zero_extend %d) %s)" % (self.w - a[0].w, a[0].smt())
        if o == "sext":
            return "((_ sign_extend %d) %s)" % (self.w - a[0].w, a[0].smt())
        if o in ("add", "sub", "mul", "and", "or", "xor", "shl", "lshr", "ashr"):
            return "(bv%s %s %s)" % (o, a[0].smt(), a[1].smt())
        if o in ("not", "neg"):
            return "(bv%s %s)" % (o, a[0].smt())
        if o == "ite":
            return "(ite (= %s #b1) %s %s)" % (a[0].smt(), a[1].smt(), a[2].smt())
        if o == "eq":
            return "(ite (= %s %s) #b1 #b0)" % (a[0].smt(), a[1].smt())
        if o in ("ult", "ule", "slt", "sle"):
            return "(ite (bv%s %s %s) #b1 #b0)" % (o, a[0].smt(), a[1].smt())
        if o in ("fpconv", "int2fp", "fp2int"):
            return self.fresh_name()
        if o == "fpinrange":
            fb, tw, signed = self.val
            strict, lo, hi = _range_bounds(fb, tw, signed)
            f = _as_fp(a[0])
            return "(ite (and (%s %s %s) (fp.lt %s %s)) #b1 #b0)" % ("fp.lt" if strict else "fp.leq", _fp_lit(lo, fb), f, f,
                                                                    _fp_lit(hi, fb))
        raise ValueError("smt: unknown op %s" % o)

    # ---- floating-point conversion nodes: a fresh bit-vector variable + a defining assertion (FloatingPoint theory) ----
    def fresh_name(self):
        return "fp_%s_%s" % (self.op, hashlib.sha1(("%s|%r|%s" % (self.op, self.val, self.args[0].smt())).encode()).hexdigest()[:10])

    def fp_defs(self, acc=None):
        """{fresh variable: (width, [assertions])} for every conversion node below this term."""
        acc = {} if acc is None else acc
        for x in self.args:
            x.fp_defs(acc)
        o = self.op
        if o in ("fpconv", "int2fp", "fp2int"):
            n = self.fresh_name()
            if n not in acc:
                a = self.args[0]
                if o == "fpconv":
                    fb, tb = self.val
                    eb, sb = FP_FMT[tb]
                    asserts = ["(= ((_ to_fp %d %d) %s) ((_ to_fp %d %d) RNE %s))" % (eb, sb, n, eb, sb, _as_fp(a))]
                elif o == "int2fp":
                    signed, tb = self.val
                    eb, sb = FP_FMT[tb]
                    asserts = ["(= ((_ to_fp %d %d) %s) ((_ %s %d %d) RNE %s))"
                               % (eb, sb, n, "to_fp" if signed else "to_fp_unsigned", eb, sb, a.smt())]
                else:
                    fb, tw, signed, policy = self.val
                    f = _as_fp(a)
                    conv = "((_ %s %d) RTZ %s)" % ("fp.to_sbv" if signed else "fp.to_ubv", tw, f)
                    inr = "(= %s #b1)" % T("fpinrange", (a,), 1, val=(fb, tw, signed)).smt()
                    if policy == "sat":
                        lo, hi = (1 << (tw - 1), (1 << (tw - 1)) - 1) if signed else (0, (1 << tw) - 1)
                        asserts = ["(= %s (ite (fp.isNaN %s) %s (ite %s %s (ite (fp.isNegative %s) %s %s))))"
                                   % (n, f, const(0, tw).smt(), inr, conv, f, const(lo, tw).smt(), const(hi, tw).smt())]
                    else:
                        asserts = ["(=> %s (= %s %s))" % (inr, n, conv)]
                acc[n] = (self.w, asserts)
        return acc

    def uses_fp(self):
        return self.op in ("fpconv", "int2fp", "fp2int", "fpinrange") or any(x.uses_fp() for x in self.args)

    def fp_guard(self):
        """1-bit term: no floating-point conversion below this term sees a NaN (NaN payloads of conversions are
        nondeterministic on wasm, so bit-level goals are stated for non-NaN conversion inputs)."""
        g = [x.fp_guard() for x in self.args]
        if self.op == "fpconv":
            g.append(bnot(fp_isnan(self.args[0])))
        return band(*g)

    # ---- concrete evaluation ---------------------------------------
    def ev(self, env: dict) -> int:
        o, a = self.op, self.args
        m = mask(self.w)
        if o == "var":
            return env[self.name] & m
        if o == "const":
            return self.val & m
        if o == "extract":
            hi, lo = self.val
            return (a[0].ev(env) >> lo) & mask(hi - lo + 1)
        if o == "zext":
            return a[0].ev(env)
        if o == "sext":
            return to_signed(a[0].ev(env), a[0].w) & m
        if o == "add":
            return (a[0].ev(env) + a[1].ev(env)) & m
        if o == "sub":
            return (a[0].ev(env) - a[1].ev(env)) & m
        if o == "mul":
            return (a[0].ev(env) * a[1].ev(env)) & m
        if o == "and":
            return a[0].ev(env) & a[1].ev(env)
        if o == "or":
            return a[0].ev(env) | a[1].ev(env)
        if o == "xor":
            return a[0].ev(env) ^ a[1].ev(env)
        if o == "shl":
            s = a[1].ev(env)
            return (a[0].ev(env) << s) & m if s < self.w else 0
        if o == "lshr":
            s = a[1].ev(env)
            return (a[0].ev(env) >> s) if s < self.w else 0
        if o == "ashr":
            s = min(a[1].ev(env), self.w - 1)
            return (to_signed(a[0].ev(env), self.w) >> s) & m
        if o == "not":
            return (~a[0].ev(env)) & m
        if o == "neg":
            return (-a[0].ev(env)) & m
        if o == "ite":
            return a[1].ev(env) if a[0].ev(env) else a[2].ev(env)
        if o == "eq":
            return 1 if a[0].ev(env) == a[1].ev(env) else 0
        if o == "ult":
            return 1 if a[0].ev(env) < a[1].ev(env) else 0
        if o == "ule":
            return 1 if a[0].ev(env) <= a[1].ev(env) else 0
        if o == "slt":
            return 1 if to_signed(a[0].ev(env), a[0].w) < to_signed(a[1].ev(env), a[1].w) else 0
        if o == "sle":
            return 1 if to_signed(a[0].ev(env), a[0].w) <= to_signed(a[1].ev(env), a[1].w) else 0
        if o == "fpconv":
            return fp_convert(a[0].ev(env), self.val[0], self.val[1])
        if o == "int2fp":
            return int_to_fp(a[0].ev(env), a[0].w, self.val[0], self.val[1])
        if o == "fp2int":
            return fp_to_int(a[0].ev(env), *self.val)
        if o == "fpinrange":
            return fp_in_range(a[0].ev(env), *self.val)
        raise ValueError("ev: unknown op %s" % o)

    # ---- compiled evaluation (fast path for exhaustive narrow-type runs) ----
    def py(self) -> str:
        """A Python expression over variables named like the SMT variables."""
        o, a = self.op, self.args
        m = mask(self.w)
        if o == "var":
            return "(%s & %d)" % (self.name, m)
        if o == "const":
            return "%d" % (self.val & m)
        if o == "extract":
            hi, lo = self.val
            return "((%s >> %d) & %d)" % (a[0].py(), lo, mask(hi - lo + 1))
        if o == "zext":
            return a[0].py()
        if o == "sext":
            sw = a[0].w
            return "((((%s) ^ %d) - %d) & %d)" % (a[0].py(), 1 << (sw - 1), 1 << (sw - 1), m)
        if o in ("add", "sub", "mul"):
            return "((%s %s %s) & %d)" % (a[0].py(), {"add": "+", "sub": "-", "mul": "*"}[o], a[1].py(), m)
        if o in ("and", "or", "xor"):
            return "(%s %s %s)" % (a[0].py(), {"and": "&", "or": "|", "xor": "^"}[o], a[1].py())
        if o == "shl":
            return "_shl(%s, %s, %d)" % (a[0].py(), a[1].py(), self.w)
        if o == "lshr":
            return "_lshr(%s, %s, %d)" % (a[0].py(), a[1].py(), self.w)
        if o == "ashr":
            return "_ashr(%s, %s, %d)" % (a[0].py(), a[1].py(), self.w)
        if o == "not":
            return "((~%s) & %d)" % (a[0].py(), m)
        if o == "neg":
            return "((-%s) & %d)" % (a[0].py(), m)
        if o == "ite":
            return "(%s if %s else %s)" % (a[1].py(), a[0].py(), a[2].py())
        if o == "eq":
            return "(1 if %s == %s else 0)" % (a[0].py(), a[1].py())
        if o in ("ult", "ule"):
            return "(1 if %s %s %s else 0)" % (a[0].py(), "<" if o == "ult" else "<=", a[1].py())
        if o in ("slt", "sle"):
            w = a[0].w
            return "(1 if _sg(%s, %d) %s _sg(%s, %d) else 0)" % (a[0].py(), w, "<" if o == "slt" else "<=", a[1].py(), w)
        if o == "fpconv":
            return "_fpconv(%s, %d, %d)" % (a[0].py(), self.val[0], self.val[1])
        if o == "int2fp":
            return "_int2fp(%s, %d, %r, %d)" % (a[0].py(), a[0].w, self.val[0], self.val[1])
        if o == "fp2int":
            return "_fp2int(%s, %d, %d, %r, %r)" % ((a[0].py(),) + tuple(self.val))
        if o == "fpinrange":
            return "_fpinrange(%s, %d, %d, %r)" % ((a[0].py(),) + tuple(self.val))
        raise ValueError("py: unknown op %s" % o)

    def compile(self, names):
        env = {"_shl": lambda x, s, w: (x << s) & mask(w) if s < w else 0,
               "_lshr": lambda x, s, w: (x >> s) if s < w else 0,
               "_ashr": lambda x, s, w: (to_signed(x, w) >> min(s, w - 1)) & mask(w),
               "_sg": to_signed, "_fpconv": fp_convert, "_int2fp": int_to_fp, "_fp2int": fp_to_int, "_fpinrange": fp_in_range}
        return eval("lambda %s: %s" % (", ".join(names), self.py()), env)

    def vars(self, acc=None) -> dict:
        acc = {} if acc is None else acc
        if self.op == "var":
            acc[self.name] = self.w
        for x in self.args:
            x.vars(acc)
        return acc

    def is_const(self):
        return self.op == "const"

    def __repr__(self):
        return self.smt()


# ---- constructors (no simplification beyond constant folding of widths) ----
def var(name, w):
    return T("var", (), w, name=name)


def const(v, w):
    return T("const", (), w, val=v & mask(w))


def extract(a, hi, lo):
    assert 0 <= lo <= hi < a.w, (hi, lo, a.w)
    if lo == 0 and hi == a.w - 1:
        return a
    return T("extract", (a,), hi - lo + 1, val=(hi, lo))


def zext(a, w):
    assert w >= a.w
    return a if w == a.w else T("zext", (a,), w)


def sext(a, w):
    assert w >= a.w
    return a if w == a.w else T("sext", (a,), w)


def resize(a, w, signed):
    """Integer conversion to width w: truncate, or extend by the SOURCE signedness."""
    if w == a.w:
        return a
    if w < a.w:
        return extract(a, w - 1, 0)
    return sext(a, w) if signed else zext(a, w)


def binop(op, a, b):
    assert a.w == b.w, (op, a.w, b.w)
    return T(op, (a, b), a.w)


def unop(op, a):
    return T(op, (a,), a.w)


def ite(c, a, b):
    assert c.w == 1 and a.w == b.w
    return T("ite", (c, a, b), a.w)


def eq(a, b):
    assert a.w == b.w, (a.w, b.w)
    return T("eq", (a, b), 1)


def ne(a, b):
    return bnot(eq(a, b))


def cmp(op, a, b):
    assert a.w == b.w
    return T(op, (a, b), 1)


def bnot(c):
    assert c.w == 1
    return T("not", (c,), 1)


def band(*cs):
    r = None
    for c in cs:
        assert c.w == 1
        if c is TRUE:
            continue
        r = c if r is None else T("and", (r, c), 1)
    return r if r is not None else TRUE


def bor(*cs):
    r = None
    for c in cs:
        assert c.w == 1
        r = c if r is None else T("or", (r, c), 1)
    return r if r is not None else FALSE


TRUE = const(1, 1)
FALSE = const(0, 1)


def fp_isnan(a):
    eb, sb = FP_FMT[a.w]
    e = extract(a, a.w - 2, sb - 1)
    m = extract(a, sb - 2, 0)
    return band(eq(e, const(mask(eb), eb)), bnot(eq(m, const(0, sb - 1))))


def fpconv(a, tb):
    return a if a.w == tb else T("fpconv", (a,), tb, val=(a.w, tb))


def int2fp(a, signed, tb):
    return T("int2fp", (a,), tb, val=(bool(signed), tb))


def fp2int(a, tw, signed, policy):
    return T("fp2int", (a,), tw, val=(a.w, tw, bool(signed), policy))


def fpinrange(a, tw, signed):
    return T("fpinrange", (a,), 1, val=(a.w, tw, bool(signed)))
