"""Bit-vector terms: one representation, two interpretations.

Every term is a fixed-width bit-vector.  Conditions are 1-bit vectors.  The
same DAG is (a) printed as SMT-LIB 2 (QF_BV) for z3/cvc5 and (b) evaluated
concretely on Python integers -- (b) is the replay / exhaustive-narrow path and
the cross-check of (a): a `sat` model is only believed if (b) reproduces it.
"""
from __future__ import annotations


def mask(w: int) -> int:
    return (1 << w) - 1


def to_signed(v: int, w: int) -> int:
    v &= mask(w)
    return v - (1 << w) if v >> (w - 1) else v


class T:
    __slots__ = ("op", "args", "w", "val", "name")

    def __init__(self, op, args=(), w=0, val=None, name=None):
        self.op = op
        self.args = tuple(args)
        self.w = w
        self.val = val
        self.name = name

    # ---- SMT-LIB ----------------------------------------------------
    def smt(self) -> str:
        o, a = self.op, self.args
        if o == "var":
            return self.name
        if o == "const":
            if self.w % 4 == 0:
                return "#x%0*x" % (self.w // 4, self.val & mask(self.w))
            return "#b" + format(self.val & mask(self.w), "0%db" % self.w)
        if o == "extract":
            hi, lo = self.val
            return "((_ extract %d %d) %s)" % (hi, lo, a[0].smt())
        if o == "zext":
            return "((_ zero_extend %d) %s)" % (self.w - a[0].w, a[0].smt())
        if o == "sext":
            return "((_ sign_extend %d) %s)" % (self.w - a[0].w, a[0].smt())
        if o in ("add", "sub", "mul", "and", "or", "xor", "shl", "lshr", "ashr"):
            return "(bv%s %s %s)" % (o, a[0].smt(), a[1].smt())
        if o in ("not", "neg"):
            return "(bv%s %s)" % (o, a[0].smt())
        if o == "ite":
            return "(ite (= %s #b1) %s %s)" % (a[0].smt(), a[1].smt(), a[2].smt())
        if o == "eq":
            return "(ite (= %s %s) #b1 #b0)" % (a[0].smt(), a[1].smt())
        if o in ("ult", "ule", "slt", "sle"):
            return "(ite (bv%s %s %s) #b1 #b0)" % (o, a[0].smt(), a[1].smt())
        raise ValueError("smt: unknown op %s" % o)

    # ---- concrete evaluation ---------------------------------------
    def ev(self, env: dict) -> int:
        o, a = self.op, self.args
        m = mask(self.w)
        if o == "var":
            return env[self.name] & m
        if o == "const":
            return self.val & m
        if o == "extract":
            hi, lo = self.val
            return (a[0].ev(env) >> lo) & mask(hi - lo + 1)
        if o == "zext":
            return a[0].ev(env)
        if o == "sext":
            return to_signed(a[0].ev(env), a[0].w) & m
        if o == "add":
            return (a[0].ev(env) + a[1].ev(env)) & m
        if o == "sub":
            return (a[0].ev(env) - a[1].ev(env)) & m
        if o == "mul":
            return (a[0].ev(env) * a[1].ev(env)) & m
        if o == "and":
            return a[0].ev(env) & a[1].ev(env)
        if o == "or":
            return a[0].ev(env) | a[1].ev(env)
        if o == "xor":
            return a[0].ev(env) ^ a[1].ev(env)
        if o == "shl":
            s = a[1].ev(env)
            return (a[0].ev(env) << s) & m if s < self.w else 0
        if o == "lshr":
            s = a[1].ev(env)
            return (a[0].ev(env) >> s) if s < self.w else 0
        if o == "ashr":
            s = min(a[1].ev(env), self.w - 1)
            return (to_signed(a[0].ev(env), self.w) >> s) & m
        if o == "not":
            return (~a[0].ev(env)) & m
        if o == "neg":
            return (-a[0].ev(env)) & m
        if o == "ite":
            return a[1].ev(env) if a[0].ev(env) else a[2].ev(env)
        if o == "eq":
            return 1 if a[0].ev(env) == a[1].ev(env) else 0
        if o == "ult":
            return 1 if a[0].ev(env) < a[1].ev(env) else 0
        if o == "ule":
            return 1 if a[0].ev(env) <= a[1].ev(env) else 0
        if o == "slt":
            return 1 if to_signed(a[0].ev(env), a[0].w) < to_signed(a[1].ev(env), a[1].w) else 0
        if o == "sle":
            return 1 if to_signed(a[0].ev(env), a[0].w) <= to_signed(a[1].ev(env), a[1].w) else 0
        raise ValueError("ev: unknown op %s" % o)

    # ---- compiled evaluation (fast path for exhaustive narrow-type runs) ----
    def py(self) -> str:
        """A Python expression over variables named like the SMT variables."""
        o, a = self.op, self.args
        m = mask(self.w)
        if o == "var":
            return "(%s & %d)" % (self.name, m)
        if o == "const":
            return "%d" % (self.val & m)
        if o == "extract":
            hi, lo = self.val
            return "((%s >> %d) & %d)" % (a[0].py(), lo, mask(hi - lo + 1))
        if o == "zext":
            return a[0].py()
        if o == "sext":
            sw = a[0].w
            return "((((%s) ^ %d) - %d) & %d)" % (a[0].py(), 1 << (sw - 1), 1 << (sw - 1), m)
        if o in ("add", "sub", "mul"):
            return "((%s %s %s) & %d)" % (a[0].py(), {"add": "+", "sub": "-", "mul": "*"}[o], a[1].py(), m)
        if o in ("and", "or", "xor"):
            return "(%s %s %s)" % (a[0].py(), {"and": "&", "or": "|", "xor": "^"}[o], a[1].py())
        if o == "shl":
            return "_shl(%s, %s, %d)" % (a[0].py(), a[1].py(), self.w)
        if o == "lshr":
            return "_lshr(%s, %s, %d)" % (a[0].py(), a[1].py(), self.w)
        if o == "ashr":
            return "_ashr(%s, %s, %d)" % (a[0].py(), a[1].py(), self.w)
        if o == "not":
            return "((~%s) & %d)" % (a[0].py(), m)
        if o == "neg":
            return "((-%s) & %d)" % (a[0].py(), m)
        if o == "ite":
            return "(%s if %s else %s)" % (a[1].py(), a[0].py(), a[2].py())
        if o == "eq":
            return "(1 if %s == %s else 0)" % (a[0].py(), a[1].py())
        if o in ("ult", "ule"):
            return "(1 if %s %s %s else 0)" % (a[0].py(), "<" if o == "ult" else "<=", a[1].py())
        if o in ("slt", "sle"):
            w = a[0].w
            return "(1 if _sg(%s, %d) %s _sg(%s, %d) else 0)" % (a[0].py(), w, "<" if o == "slt" else "<=", a[1].py(), w)
        raise ValueError("py: unknown op %s" % o)

    def compile(self, names):
        env = {"_shl": lambda x, s, w: (x << s) & mask(w) if s < w else 0,
               "_lshr": lambda x, s, w: (x >> s) if s < w else 0,
               "_ashr": lambda x, s, w: (to_signed(x, w) >> min(s, w - 1)) & mask(w),
               "_sg": to_signed}
        return eval("lambda %s: %s" % (", ".join(names), self.py()), env)

    def vars(self, acc=None) -> dict:
        acc = {} if acc is None else acc
        if self.op == "var":
            acc[self.name] = self.w
        for x in self.args:
            x.vars(acc)
        return acc

    def is_const(self):
        return self.op == "const"

    def __repr__(self):
        return self.smt()


# ---- constructors (no simplification beyond constant folding of widths) ----
def var(name, w):
    return T("var", (), w, name=name)


def const(v, w):
    return T("const", (), w, val=v & mask(w))


def extract(a, hi, lo):
    assert 0 <= lo <= hi < a.w, (hi, lo, a.w)
    if lo == 0 and hi == a.w - 1:
        return a
    return T("extract", (a,), hi - lo + 1, val=(hi, lo))


def zext(a, w):
    assert w >= a.w
    return a if w == a.w else T("zext", (a,), w)


def sext(a, w):
    assert w >= a.w
    return a if w == a.w else T("sext", (a,), w)


def resize(a, w, signed):
    """Integer conversion to width w: truncate, or extend by the SOURCE signedness."""
    if w == a.w:
        return a
    if w < a.w:
        return extract(a, w - 1, 0)
    return sext(a, w) if signed else zext(a, w)


def binop(op, a, b):
    assert a.w == b.w, (op, a.w, b.w)
    return T(op, (a, b), a.w)


def unop(op, a):
    return T(op, (a,), a.w)


def ite(c, a, b):
    assert c.w == 1 and a.w == b.w
    return T("ite", (c, a, b), a.w)


def eq(a, b):
    assert a.w == b.w, (a.w, b.w)
    return T("eq", (a, b), 1)


def ne(a, b):
    return bnot(eq(a, b))


def cmp(op, a, b):
    assert a.w == b.w
    return T(op, (a, b), 1)


def bnot(c):
    assert c.w == 1
    return T("not", (c,), 1)


def band(*cs):
    r = None
    for c in cs:
        assert c.w == 1
        r = c if r is None else T("and", (r, c), 1)
    return r if r is not None else TRUE


def bor(*cs):
    r = None
    for c in cs:
        assert c.w == 1
        r = c if r is None else T("or", (r, c), 1)
    return r if r is not None else FALSE


TRUE = const(1, 1)
FALSE = const(0, 1)
