//! exprsmt driver: run each backend's public generator API on a probe world
//! and write the generated files below an output directory.
//!
//!   exprsmt-driver <backend> <file.wit> <world|-> <out-dir> [key=value ...]
//!
//! The optional trailing `key=value` arguments are Rust generator options
//! (backend `rust` only; used by the rustgen engine):
//!   ownership=owning|borrowing|borrowing-duplicate-if-necessary
//!   std_feature=true|false   raw_strings=true|false
//!   map_type=<path>          merge_structurally_equal_types=true|false
//!   stubs=true|false         generate_unused_types=true|false
//! and C generator options (backend `c`; used by the cgen engine):
//!   no_sig_flattening=true|false   autodrop_borrows=yes|no   string_encoding=utf8|utf16
//!
//! Mirrors /repo/src/bin/wit-bindgen.rs (`Opts::build()` +
//! `WorldGenerator::generate`), with default options.
use anyhow::{bail, Context, Result};
use std::path::PathBuf;
use wit_bindgen_core::wit_parser::Resolve;
use wit_bindgen_core::{Files, WorldGenerator};

fn main() -> Result<()> {
    let a: Vec<String> = std::env::args().collect();
    if a.len() < 5 || a[5..].iter().any(|kv| !kv.contains('=')) {
        bail!("usage: exprsmt-driver <backend> <file.wit> <world|-> <out-dir> [key=value ...]");
    }
    if a.len() > 5 && a[1] != "rust" && a[1] != "c" {
        bail!("generator options are only supported for the rust and c backends");
    }
    let backend = a[1].as_str();
    let wit_path = PathBuf::from(&a[2]);
    let world = if a[3] == "-" { None } else { Some(a[3].as_str()) };
    let out_dir = PathBuf::from(&a[4]);

    let mut generator: Box<dyn WorldGenerator> = match backend {
        "rust" => {
            let mut o = wit_bindgen_rust::Opts::default();
            o.generate_all = true;
            for kv in &a[5..] {
                let (k, v) = kv.split_once('=').unwrap();
                let b = || -> Result<bool> {
                    match v {
                        "1" | "true" | "on" | "yes" => Ok(true),
                        "0" | "false" | "off" | "no" => Ok(false),
                        _ => bail!("option {k}: expected true|false, got {v}"),
                    }
                };
                match k {
                    "ownership" => {
                        o.ownership = v.parse().map_err(|e: String| anyhow::anyhow!("ownership: {e}"))?
                    }
                    "std_feature" => o.std_feature = b()?,
                    "raw_strings" => o.raw_strings = b()?,
                    "map_type" => o.map_type = Some(v.to_string()),
                    "merge_structurally_equal_types" => {
                        o.merge_structurally_equal_types = Some(Some(b()?))
                    }
                    "stubs" => o.stubs = b()?,
                    "generate_unused_types" => o.generate_unused_types = b()?,
                    other => bail!("unknown rust generator option {other}"),
                }
            }
            Box::new(o.build())
        }
        #[cfg(feature = "other-backends")]
        "c" => {
            let mut o = wit_bindgen_c::Opts::default();
            for kv in &a[5..] {
                let (k, v) = kv.split_once('=').unwrap();
                let yes = matches!(v, "1" | "true" | "on" | "yes");
                match k {
                    "no_sig_flattening" => o.no_sig_flattening = yes,
                    "autodrop_borrows" => {
                        o.autodrop_borrows = if yes { wit_bindgen_c::Enabled::Yes } else { wit_bindgen_c::Enabled::No }
                    }
                    "string_encoding" => o.string_encoding = v.parse()?,
                    other => bail!("unknown c generator option {other}"),
                }
            }
            o.build()
        }
        #[cfg(feature = "other-backends")]
        "cpp" => wit_bindgen_cpp::Opts::default().build(Some(&out_dir)),
        #[cfg(feature = "other-backends")]
        "csharp" => wit_bindgen_csharp::Opts::default().build(),
        #[cfg(feature = "other-backends")]
        "go" => wit_bindgen_go::Opts::default().build(),
        #[cfg(feature = "other-backends")]
        "moonbit" => {
            // `Opts::default()` leaves `gen_dir` empty; the CLI default is "gen".
            let mut o = wit_bindgen_moonbit::Opts::default();
            o.gen_dir = "gen".to_string();
            o.build()
        }
        #[cfg(feature = "other-backends")]
        "d" => wit_bindgen_d::Opts::default().build(Some(&out_dir)),
        other => bail!("unknown backend {other}"),
    };

    let text = std::fs::read_to_string(&wit_path).with_context(|| format!("read {wit_path:?}"))?;
    let mut resolve = Resolve::default();
    let pkg = resolve.push_str(&wit_path, &text)?;
    let world = resolve.select_world(&[pkg], world)?;
    let mut files = Files::default();
    generator.generate(&mut resolve, world, &mut files)?;
    for (name, contents) in files.iter() {
        // never let a generator-chosen absolute name escape the output directory
        let dst = out_dir.join(name.trim_start_matches('/'));
        if let Some(p) = dst.parent() {
            std::fs::create_dir_all(p)?;
        }
        std::fs::write(&dst, contents).with_context(|| format!("write {dst:?}"))?;
        println!("{}", dst.display());
    }
    Ok(())
}
