//! exprsmt driver: run each backend's public generator API on a probe world
//! and write the generated files below an output directory.
//!
//!   exprsmt-driver <backend> <file.wit> <world|-> <out-dir>
//!
//! Mirrors /repo/src/bin/wit-bindgen.rs (`Opts::build()` +
//! `WorldGenerator::generate`), with default options.
use anyhow::{bail, Context, Result};
use std::path::PathBuf;
use wit_bindgen_core::wit_parser::Resolve;
use wit_bindgen_core::{Files, WorldGenerator};

fn main() -> Result<()> {
    let a: Vec<String> = std::env::args().collect();
    if a.len() != 5 {
        bail!("usage: exprsmt-driver <backend> <file.wit> <world|-> <out-dir>");
    }
    let backend = a[1].as_str();
    let wit_path = PathBuf::from(&a[2]);
    let world = if a[3] == "-" { None } else { Some(a[3].as_str()) };
    let out_dir = PathBuf::from(&a[4]);

    let mut generator: Box<dyn WorldGenerator> = match backend {
        "rust" => {
            let mut o = wit_bindgen_rust::Opts::default();
            o.generate_all = true;
            Box::new(o.build())
        }
        "c" => wit_bindgen_c::Opts::default().build(),
        "cpp" => wit_bindgen_cpp::Opts::default().build(Some(&out_dir)),
        "csharp" => wit_bindgen_csharp::Opts::default().build(),
        "go" => wit_bindgen_go::Opts::default().build(),
        "moonbit" => {
            // `Opts::default()` leaves `gen_dir` empty; the CLI default is "gen".
            let mut o = wit_bindgen_moonbit::Opts::default();
            o.gen_dir = "gen".to_string();
            o.build()
        }
        "d" => wit_bindgen_d::Opts::default().build(Some(&out_dir)),
        other => bail!("unknown backend {other}"),
    };

    let text = std::fs::read_to_string(&wit_path).with_context(|| format!("read {wit_path:?}"))?;
    let mut resolve = Resolve::default();
    let pkg = resolve.push_str(&wit_path, &text)?;
    let world = resolve.select_world(&[pkg], world)?;
    let mut files = Files::default();
    generator.generate(&mut resolve, world, &mut files)?;
    for (name, contents) in files.iter() {
        // never let a generator-chosen absolute name escape the output directory
        let dst = out_dir.join(name.trim_start_matches('/'));
        if let Some(p) = dst.parent() {
            std::fs::create_dir_all(p)?;
        }
        std::fs::write(&dst, contents).with_context(|| format!("write {dst:?}"))?;
        println!("{}", dst.display());
    }
    Ok(())
}
