# Filled in as engines land; read by gen_manifest.py
_TV = "translation_validation"
_ABISYM_NOTE = ("Trusted: abisym/src/spec.rs (reference model written from CanonicalABI.md), the documented meaning of each abi::Instruction "
                "(abisym/src/eval.rs), wit_parser::SizeAlign strides as consumed by backends (cross-checked, TRUSTED-BASE-DISAGREEMENT), z3 5.1 "
                "(cvc5 sampled; every sat model re-evaluated by abisym's own term evaluator before VIOLATION). Assumed: allocator contract "
                "(fresh, aligned, disjoint), value validity (char scalar, discriminant in range), list lengths <= 2 (quick) / 3 (thorough), "
                "non-aliasing input buffers. WIT types/signatures are ENUMERATED (bounded corpus), values are symbolic.")

CLAIMED = {
    "C01": dict(engine="abisym", level=_TV, ref="DESIGN §1/E1, §4/C01", note=_ABISYM_NOTE,
                technique="symbolic execution of the real generator's instruction stream + SMT (QF_BV, z3/cvc5) against a canonical-ABI reference",
                text="Bounded proof per enumerated WIT type (~360 types x pointer width {4,8} x list mode x 5 families): the instruction stream the "
                     "real abi.rs emits is executed symbolically over ALL values of the type and the solver shows lower_flat/lower_to_memory/"
                     "lift_from_memory/flat lifting agree with the reference encoder/decoder bit for bit (incl. padding slots, buffer sizes, "
                     "frame condition). Right level: the bugs live at rare values/layouts that no sampled test reaches; types cannot be made symbolic."),
    "C02": dict(engine="abisym", level=_TV, ref="DESIGN §1/E1, §4/C02", note=_ABISYM_NOTE,
                technique="symbolic execution of abi::call streams + SMT against the reference calling convention",
                text="For ~90 signatures straddling the 16-flat-parameter / 1-flat-result limits x {guest import sync, guest export sync, guest export "
                     "async(callback)} x pointer width x list mode: exactly one core call / interface call / task.return, canonical core signature "
                     "recomputed by the reference, flat or indirect parameters and results equal the reference encoding for all argument values, "
                     "caller-allocated parameter record freed exactly once."),
    "C03": dict(engine="abisym", level=_TV, ref="DESIGN §1/E1, §4/C03", note=_ABISYM_NOTE,
                technique="symbolic allocation/free ledger over the lowering + deallocation streams, matched by SMT",
                text="For every enumerated type with heap data or owned handles: run the real lowering (recording each allocation with its path "
                     "guard) then the real deallocate_lists[_and_own]_in_types / post_return stream on the lowered representation; the solver shows "
                     "each non-empty buffer is freed exactly once with its own size+alignment, nothing else is freed, owned handles are dropped as "
                     "a multiset exactly in lists+own mode and never in lists mode; guest_export_needs_post_return == reference 'has heap buffer'."),
    "C04": dict(engine="abisym+exprsmt", level=_TV, ref="DESIGN §1/E1+E2, §4/C04", note=_ABISYM_NOTE + " Backend half: exprsmt/SEMANTICS.md language "
                "conversion tables, CBMC's C semantics (--32), Kani for generated Rust.",
                technique="SMT over all 32/64-bit patterns: abi::cast pairs produced by flat_types for 484 two-case + sampled three-case variant "
                          "shapes; per-backend emitted Bitcast expressions translated to bit-vector terms (CBMC for C)",
                text="Core: every (payload flat type, joined type) pair the generator feeds to abi::cast is shown lossless (down(up(x)) == x) and equal to "
                     "the canonical reinterpret/zero-extend/wrap coercion for all bit patterns, no shape reaches an unreachable!() arm, and the full "
                     "flat lower/lift of each shape matches the reference. Backends: the expression each of 7 backends emits for each Bitcast is "
                     "decided against the same coercion in its typed context."),
    "C14": dict(engine="exprsmt", level=_TV, ref="DESIGN §1/E2, §4/C14",
                note="Trusted: exprsmt/SEMANTICS.md (per-language integer conversion rules for C++, C#, Go, MoonBit, D, Rust), CBMC's C semantics with a "
                     "32-bit libc header shim, Kani for the generated Rust export glue; z3 and cvc5 must agree. Probe worlds are fixed (one import and one "
                     "export per scalar type); extraction is anchored on sentinel names and unparseable expressions are inconclusive, never passed.",
                technique="emitted scalar conversion expressions -> SMT bit-vector terms under each target language's semantics (CBMC on generated C, Kani on generated Rust), all 2^32/2^64 inputs",
                text="For each of 7 backends x 24 scalar Instructions x import/export context the generator's emitted expression is extracted from real "
                     "generated bindings and the solver shows it equals the canonical mapping for every input (lifts: arbitrary upper bits). "
                     "Right level: a wrong conversion that is masked on the round trip (as MoonBit s8 was) is invisible to round-trip tests."),
}

ENGINES = [
    {"name": "abisym", "path": "/verif/abisym", "serves_properties": ["C01", "C02", "C03", "C04"],
     "kind_free_text": "Rust: Bindgen implementation that records the real generator's Instruction stream, symbolic interpreter, canonical-ABI reference, SMT-LIB emitter (z3/cvc5), model replay"},
    {"name": "exprsmt", "path": "/verif/exprsmt", "serves_properties": ["C14", "C04"],
     "kind_free_text": "Rust driver running every backend's generator on probe worlds + Python expression extractors/translators to SMT; CBMC on generated C; Kani on generated Rust"},
]

_RS2SMT_NOTE = ("Trusted: rs2smt library models of the Rust std/heck/semver operations used (listed in evidence.trusted_base; heck model validated exhaustively "
                "against the real crate each run), bounded ASCII strings as bit-vector character arrays, z3 5.1 + z3 4.8.12 racing with cvc5 as capped second "
                "opinion; translator validated every run against the natively compiled functions (repo unit tests + 200 seeded cases); every sat model is "
                "replayed natively before VIOLATION. Anything outside the interpreted Rust subset => UNSUPPORTED => exit 2.")
CLAIMED.update({
    "C10": dict(engine="cgen", level=_TV, ref="DESIGN §1/E4, §4/C10, §8.4",
                note="Trusted: cgen/canon.py reference encoder/decoder generated from the WIT type (written from the canonical ABI, not from the bindings), "
                     "CBMC 6.11 C semantics with --32 --little-endian (wasm32 layout), libc header shim; no wasm host exists here, so 'as judged by an independent "
                     "host' is replaced by that reference. Worlds are ENUMERATED (63 quick / 97 thorough x option sets), values nondet; lists/strings <= 2 / 3.",
                technique="CBMC over the real generated C bindings linked with generated host harnesses (nondet values, reference canonical-ABI encoder/decoder as oracle)",
                text="For every world of the corpus x option set, both directions: the core arguments / parameter record / return area the generated wrapper "
                     "produces equal the reference encoding of the nondet C value and the value it returns equals the reference decoding, for all values within "
                     "the bounds (unwinding assertions on, reachability witnesses per harness)."),
    "C11": dict(engine="cgen", level=_TV, ref="DESIGN §1/E4, §4/C11, §8.4",
                note="As C10, with CBMC's --memory-leak-check/--pointer-check/--bounds-check as the ownership oracle; handles != 0 assumed; alignment not observable in CBMC.",
                technique="CBMC memory-safety/leak checking over generated C glue, *_free helpers and resource wrappers with nondet values and bounded operation sequences",
                text="post-return frees exactly what the export glue allocated, import wrappers free nothing of the caller's, generated *_free helpers release exactly "
                     "the owned blocks of a nondet value, resource create/borrow/drop sequences (<= 3 ops) run the user destructor once; [dtor] export name equals the canonical string."),
    "C17": dict(engine="rs2smt", level="proof", ref="DESIGN §1/E6, §4/C17, §8.4", note=_RS2SMT_NOTE,
                technique="symbolic interpretation of the current Rust source (syn AST) -> SMT (QF_BV bounded strings), z3/cvc5",
                text="Bounded proof over all directive lists (<= 3 / 4 directives, <= 12 chars over a 15-char alphabet) and queries: AsyncFilterSet selects by the first matching "
                     "directive else the WIT kind, ensure_all_used errs iff a non-`all` directive never matched, parse(display(d)) == d, no panic. The generator-side use of the answer is outside."),
    "C26": dict(engine="rs2smt", level="proof", ref="DESIGN §1/E6, §4/C26, §8.4", note=_RS2SMT_NOTE,
                technique="symbolic interpretation of the current Rust source (syn AST) -> SMT (QF_BV bounded strings), z3/cvc5",
                text="Bounded proof over all interleavings of <= 4 (6 thorough) insert/tmp calls with names <= 3 chars over {a,b,0,1}: tmp never returns a previously "
                     "defined/returned name, insert of an existing name is Err, loop unwinding obligation discharged."),
    "C34": dict(engine="rs2smt", level="proof", ref="DESIGN §1/E6, §4/C34, §8.4", note=_RS2SMT_NOTE + " TOML parsing is a recording shim: the property is about which text reaches it.",
                technique="symbolic interpretation of the current Rust source (syn AST) -> SMT (QF_BV bounded strings), z3/cvc5",
                text="Bounded proof over all files <= 12 (16) chars and markers <= 3 chars: the text handed to the TOML parser is exactly the marker-stripped leading marker "
                     "lines; a whitespace-separated argument string equals the list of its words."),
})
ENGINES += [
    {"name": "cgen", "path": "/verif/cgen", "serves_properties": ["C10", "C11"],
     "kind_free_text": "Python: WIT corpus, reference canonical-ABI encoder/decoder generator (C), harness generator; CBMC --32 on the real generated C; native gcc replay"},
    {"name": "rs2smt", "path": "/verif/rs2smt", "serves_properties": ["C17", "C25", "C26", "C27", "C34"],
     "kind_free_text": "syn-based AST dumper (Rust) + generic symbolic interpreter for a Rust subset (Python) emitting QF_BV SMT-LIB; native harness crate for translator validation and replay"},
]

CLAIMED.update({
    "C25": dict(engine="rs2smt", level="proof", ref="DESIGN §1/E6, §4/C25, §8.4", note=_RS2SMT_NOTE + " Comment line = a line that starts with `//` (assumption); "
                "texts with an interpreted `}` line at nesting depth 0 (where the code saturates) and exact indentation of lines carrying their own leading whitespace are excluded from the clauses.",
                technique="symbolic interpretation of the current Rust source (syn AST) -> SMT (QF_BV bounded strings), z3/cvc5",
                text="Bounded proof over every 2-call sequence of push_str / push_str_literal / indent / deindent with fragments <= 3 chars over {a, space, {, }, /, newline} "
                     "(thorough: 2 x 4, 3 x 2): text preserved up to line-leading whitespace, indentation follows brace nesting, literal appends neutral, balanced code restores "
                     "indentation, no panic. The text-preservation defects found were repaired (717df73); four fragment-boundary indentation shapes are known findings."),
    "C27": dict(engine="rs2smt", level="proof", ref="DESIGN §1/E6, §4/C27, §8.4", note=_RS2SMT_NOTE,
                technique="symbolic interpretation of the current Rust source (syn AST) -> SMT (QF_BV bounded strings), z3/cvc5",
                text="Bounded search/proof over two packages in one namespace (kebab names <= 3, numeric parts <= 11 / 19, pre-release/build identifiers <= 3 / 4 over {a,0,1,-,.}): "
                     "distinct (name, version) must give distinct module names. Three collision shapes of the version mangling are genuine and listed as known findings; everything else is discharged."),
})

_RTKANI_NOTE = ("Trusted: Kani 0.68 / CBMC 6.11 (cadical), the mock host's contract (rtkani/src/mock_task.rs and the per-property StreamOps/FutureOps/Subtask "
                "mocks: which answers a component-model host may give), private-path stubs of the natively unreachable canonical built-ins (listed in "
                "evidence.assumptions). Level L1 (operation level): the harness plays the exporting task (v1 and v2 task C ABI); the executor "
                "(start_task/callback/block_on, SharedTaskState's BTreeMap) is outside (C22/C23 not applicable). Schedules are fixed scripts (symbolic schedule "
                "loops run out of memory at depth 5); host codes, task ABI version, handles and payload bytes are symbolic. Failures are replayed with "
                "concrete playback natively where possible; a static-aliasing lint guards against a known Kani artefact.")
CLAIMED.update({
    "C18": dict(engine="rtkani", level="model_checking", ref="DESIGN §1/E3, §4/C18, §8.6", note=_RTKANI_NOTE,
                technique="Kani (CBMC) bounded model checking of the real waitable.rs with a mock exporting task and symbolic host answers",
                text="22 (29 thorough) harnesses: one-task and two-task scripts (v1/v2 in every combination) over register/poll/complete/cancel/drop of a waitable "
                     "operation; assertions inside the mock task: registered while pending, nowhere registered when cancelled/dropped, callback never invoked after "
                     "unregistration, each code delivered once, v2 clones balanced. The v1-origin cross-task moves are known findings; v2->v1 was repaired."),
    "C19": dict(engine="rtkani", level="model_checking", ref="DESIGN §1/E3, §4/C19, §8.6", note=_RTKANI_NOTE,
                technique="Kani (CBMC) bounded model checking of stream_support.rs / abi_buffer.rs with a mock StreamOps host",
                text="ReturnCode::decode over all 2^32 codes; AbiBuffer one-step harnesses from every state (len 0/1/3, u8 and lifted payloads); stream write/read "
                     "scripts with symbolic Completed/Dropped/Cancelled counts, cancel racing completion, drop mid-flight, per-slot lower/lift/dealloc ledger."),
    "C20": dict(engine="rtkani", level="model_checking", ref="DESIGN §1/E3, §4/C20, §8.6", note=_RTKANI_NOTE,
                technique="Kani (CBMC) bounded model checking of future_support.rs with a mock FutureOps host that traps on an early drop-writable",
                text="17 (19) harnesses: write->complete / reader dropped / cancel with symbolic answer, write future dropped mid-flight, writer dropped unwritten "
                     "(default value path), read, cancel-read with queued completion; payload ledger balanced, cancel outcomes equal what the host produced."),
    "C21": dict(engine="rtkani", level="model_checking", ref="DESIGN §1/E3, §4/C21, §8.6", note=_RTKANI_NOTE,
                technique="Kani (CBMC) bounded model checking of subtask.rs with a mock Subtask host",
                text="11 (22) harnesses: 8 status schedules x {flat, indirect params area} with symbolic codes/handles/task ABI: params_dealloc_lists xor "
                     "_and_own exactly once (the latter only when cancelled before start), results lifted once iff returned, subtask.drop once iff a handle exists, "
                     "cancel only while in progress, areas freed once (CBMC memory-leak check)."),
    "C24": dict(engine="rtkani", level="model_checking", ref="DESIGN §1/E3, §4/C24, §8.6", note=_RTKANI_NOTE + " Alignment of returned addresses is not observable in CBMC's "
                "pointer model: the Layout handed to the global allocator is checked instead (delegated to the allocator's contract).",
                technique="Kani (CBMC) over cabi_realloc (guarded cfg hook), rt::Cleanup and the generated cabi_dealloc text",
                text="6 harnesses: symbolic (old_ptr, old_len, align = 2^k <= 2^16, new_len): non-null, zero-size returns align, contents preserved up to "
                     "min(old,new) (bytewise <= 16), Layout passed to alloc/realloc/dealloc has the requested size and alignment (sizes <= 2^20), Cleanup null iff size 0 and freed once."),
})
ENGINES += [
    {"name": "rtkani", "path": "/verif/rtkani", "serves_properties": ["C18", "C19", "C20", "C21", "C24"],
     "kind_free_text": "out-of-tree Kani harness crate (path dependency on crates/guest-rust with the verif cfg) + Python runner (slots, memory caps, cover/unwinding parsing, concrete playback)"},
]

_RUSTGEN_NOTE = ("Trusted: Kani 0.68 / CBMC 6.11 with --memory-leak-check, rustgen/spec.py + hgen.py (independently written canonical-ABI reference at pointer width 8), "
                 "the recording Guest implementation; String::from_utf8 is replaced by the harness's own validator (core's costs > 4 min of SAT). Explicitly bounded form of the "
                 "property: export direction for value types (import direction only for resource calls, through the guarded generator hook e7439bb), pointer width 8 (the host's; "
                 "the wasm32 layout of the same instruction stream is C01's), no external component-model host, worlds ENUMERATED (37 quick / 58 thorough type classes x option cells), "
                 "lists <= 2 (3), strings <= 2 bytes, maps only BTreeMap with concrete 0/1 entries, list<string> and async outside. Results are memoised per (generated bindings text, harness "
                 "text, runtime source hash): a cache hit is reported in evidence (cache_hits) and only happens when CBMC's input is byte-identical.")
CLAIMED.update({
    "C05": dict(engine="rustgen", level="model_checking", ref="DESIGN §1/E5, §4/C05, §8.8", note=_RUSTGEN_NOTE,
                technique="Kani (CBMC) over the real generated Rust bindings with symbolic core values / argument memory and a recording Guest, against a reference canonical-ABI decode/encode",
                text="Per type class and option cell: reference-decode of arbitrary core arguments/argument memory equals what Guest::f received, and the flat result / return-area bytes equal "
                     "the reference encoding of an arbitrary returned value. Weaker than C05 as written (see note): it is the export glue at pointer width 8 judged by my reference, not a whole component judged by a host."),
    "C06": dict(engine="rustgen", level="model_checking", ref="DESIGN §1/E5, §4/C06, §8.8", note=_RUSTGEN_NOTE + " Dealloc alignment is not observable in CBMC.",
                technique="Kani (CBMC) memory model (double free, use after free, out of bounds, invalid dealloc) + --memory-leak-check over the generated export glue and post-return",
                text="Same harnesses with the allocator as oracle: argument buffers handed in by the 'host' are freed or owned by the received value, buffers created by lowering the result are gone "
                     "after __post_return, no double free / out-of-bounds access, indirect parameter area freed once."),
    "C07": dict(engine="rustgen", level="model_checking", ref="DESIGN §1/E5, §4/C07, §8.8", note=_RUSTGEN_NOTE,
                technique="Kani (CBMC) over the generated Resource<T>/handle wrappers and exported-resource glue with symbolic operation sequences (<= 4) and per-handle drop counters",
                text="A handle is dropped at most once, never after take_handle/into_handle, exactly once if never taken; borrows are never dropped by the guest; exported resource: the user value is "
                     "reached through the rep and destroyed exactly once when the dtor export runs; import calls transfer own handles exactly once."),
})
ENGINES += [
    {"name": "rustgen", "path": "/verif/rustgen", "serves_properties": ["C05", "C06", "C07"],
     "kind_free_text": "Python: corpus, reference ABI (width 8), Kani harness generator over bindings produced by the real Rust backend (exprsmt driver), runner with slots/caps/cache, concrete playback"},
]
