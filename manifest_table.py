# Filled in as engines land; read by gen_manifest.py
_TV = "translation_validation"
_ABISYM_NOTE = ("Trusted: abisym/src/spec.rs (reference model written from CanonicalABI.md), the documented meaning of each abi::Instruction "
                "(abisym/src/eval.rs), wit_parser::SizeAlign strides as consumed by backends (cross-checked, TRUSTED-BASE-DISAGREEMENT), z3 5.1 "
                "(cvc5 sampled; every sat model re-evaluated by abisym's own term evaluator before VIOLATION). Assumed: allocator contract "
                "(fresh, aligned, disjoint), value validity (char scalar, discriminant in range), list lengths <= 2 (quick) / 3 (thorough), "
                "non-aliasing input buffers. WIT types/signatures are ENUMERATED (bounded corpus), values are symbolic.")

CLAIMED = {
    "C01": dict(engine="abisym", level=_TV, ref="DESIGN §1/E1, §4/C01", note=_ABISYM_NOTE,
                technique="symbolic execution of the real generator's instruction stream + SMT (QF_BV, z3/cvc5) against a canonical-ABI reference",
                text="Bounded proof per enumerated WIT type (~360 types x pointer width {4,8} x list mode x 5 families): the instruction stream the "
                     "real abi.rs emits is executed symbolically over ALL values of the type and the solver shows lower_flat/lower_to_memory/"
                     "lift_from_memory/flat lifting agree with the reference encoder/decoder bit for bit (incl. padding slots, buffer sizes, "
                     "frame condition). Right level: the bugs live at rare values/layouts that no sampled test reaches; types cannot be made symbolic."),
    "C02": dict(engine="abisym", level=_TV, ref="DESIGN §1/E1, §4/C02", note=_ABISYM_NOTE,
                technique="symbolic execution of abi::call streams + SMT against the reference calling convention",
                text="For ~90 signatures straddling the 16-flat-parameter / 1-flat-result limits x {guest import sync, guest export sync, guest export "
                     "async(callback)} x pointer width x list mode: exactly one core call / interface call / task.return, canonical core signature "
                     "recomputed by the reference, flat or indirect parameters and results equal the reference encoding for all argument values, "
                     "caller-allocated parameter record freed exactly once."),
    "C03": dict(engine="abisym", level=_TV, ref="DESIGN §1/E1, §4/C03", note=_ABISYM_NOTE,
                technique="symbolic allocation/free ledger over the lowering + deallocation streams, matched by SMT",
                text="For every enumerated type with heap data or owned handles: run the real lowering (recording each allocation with its path "
                     "guard) then the real deallocate_lists[_and_own]_in_types / post_return stream on the lowered representation; the solver shows "
                     "each non-empty buffer is freed exactly once with its own size+alignment, nothing else is freed, owned handles are dropped as "
                     "a multiset exactly in lists+own mode and never in lists mode; guest_export_needs_post_return == reference 'has heap buffer'."),
    "C04": dict(engine="abisym+exprsmt", level=_TV, ref="DESIGN §1/E1+E2, §4/C04", note=_ABISYM_NOTE + " Backend half: exprsmt/SEMANTICS.md language "
                "conversion tables, CBMC's C semantics (--32), Kani for generated Rust.",
                technique="SMT over all 32/64-bit patterns: abi::cast pairs produced by flat_types for 484 two-case + sampled three-case variant "
                          "shapes; per-backend emitted Bitcast expressions translated to bit-vector terms (CBMC for C)",
                text="Core: every (payload flat type, joined type) pair the generator feeds to abi::cast is shown lossless (down(up(x)) == x) and equal to "
                     "the canonical reinterpret/zero-extend/wrap coercion for all bit patterns, no shape reaches an unreachable!() arm, and the full "
                     "flat lower/lift of each shape matches the reference. Backends: the expression each of 7 backends emits for each Bitcast is "
                     "decided against the same coercion in its typed context."),
    "C14": dict(engine="exprsmt", level=_TV, ref="DESIGN §1/E2, §4/C14",
                note="Trusted: exprsmt/SEMANTICS.md (per-language integer conversion rules for C++, C#, Go, MoonBit, D, Rust), CBMC's C semantics with a "
                     "32-bit libc header shim, Kani for the generated Rust export glue; z3 and cvc5 must agree. Probe worlds are fixed (one import and one "
                     "export per scalar type); extraction is anchored on sentinel names and unparseable expressions are inconclusive, never passed.",
                technique="emitted scalar conversion expressions -> SMT bit-vector terms under each target language's semantics (CBMC on generated C, Kani on generated Rust), all 2^32/2^64 inputs",
                text="For each of 7 backends x 24 scalar Instructions x import/export context the generator's emitted expression is extracted from real "
                     "generated bindings and the solver shows it equals the canonical mapping for every input (lifts: arbitrary upper bits). "
                     "Right level: a wrong conversion that is masked on the round trip (as MoonBit s8 was) is invisible to round-trip tests."),
}

ENGINES = [
    {"name": "abisym", "path": "/verif/abisym", "serves_properties": ["C01", "C02", "C03", "C04"],
     "kind_free_text": "Rust: Bindgen implementation that records the real generator's Instruction stream, symbolic interpreter, canonical-ABI reference, SMT-LIB emitter (z3/cvc5), model replay"},
    {"name": "exprsmt", "path": "/verif/exprsmt", "serves_properties": ["C14", "C04"],
     "kind_free_text": "Rust driver running every backend's generator on probe worlds + Python expression extractors/translators to SMT; CBMC on generated C; Kani on generated Rust"},
]
