# Filled in as engines land; read by gen_manifest.py
CLAIMED = {}
ENGINES = []
