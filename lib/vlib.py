"""Common machinery for every /verif check (see DESIGN.md section 2).

An engine module exposes `run(prop_id, tier, seed) -> Outcome`.  `finish`
turns the Outcome into KNOWN-FINDING / VIOLATION lines, the evidence file
and the exit code:

  0  every obligation discharged (known findings printed, not counted)
  1  at least one *replayed* violation that known_findings.json does not list
  2  inconclusive (timeout, OOM, unknown, (error, unsupported construct,
     unsatisfied cover witness, non-reproducing model); never success and
     never a violation
"""
from __future__ import annotations

import dataclasses
import hashlib
import json
import os
import subprocess
import sys
import time
from typing import Any

VERIF = os.path.dirname(os.path.dirname(os.path.abspath(__file__)))
REPO = os.environ.get("VERIF_REPO", "/repo")
GUARD = "bytecodealliance_wit_bindgen_verif"
EVIDENCE_DIR = os.environ.get("VERIF_EVIDENCE_DIR", os.path.join(VERIF, "evidence"))
REPLAY_DIR = os.path.join(VERIF, "replays")
# runs against a scratch copy of the repository (VERIF_REPO, mutation testing)
# get their own work tree so that they never disturb a run against /repo
WORK_DIR = os.path.join(VERIF, "work") if REPO == "/repo" else os.path.join(VERIF, "work", "alt")
# builds against a scratch copy of the repository (mutation testing) never
# share a target dir with builds against /repo
TARGET_DIR = os.path.join(VERIF, "target") if REPO == "/repo" else os.path.join(WORK_DIR, "target_alt")
if REPO != "/repo":
    # replays of runs against a scratch copy (seeded / mutated trees) are not
    # findings about /repo: keep them out of the tracked replay directory
    REPLAY_DIR = os.path.join(WORK_DIR, "replays")
KNOWN_FINDINGS = os.path.join(VERIF, "known_findings.json")


@dataclasses.dataclass
class Violation:
    """A violation that was replayed against the real code.

    role: stable key naming *which* obligation failed (property, engine,
    backend, instruction/function, direction, shape) -- never the witness.
    """
    role: str
    what: str
    replay: str | None = None
    witness: Any = None


@dataclasses.dataclass
class Outcome:
    level: str = "other"
    obligations: int = 0
    discharged: int = 0
    violations: list = dataclasses.field(default_factory=list)
    inconclusive: list = dataclasses.field(default_factory=list)
    samples: list = dataclasses.field(default_factory=list)
    functions_encoded: list = dataclasses.field(default_factory=list)
    bounds: dict = dataclasses.field(default_factory=dict)
    outside_claim: list = dataclasses.field(default_factory=list)
    queries: int = 0
    solver_s: float = 0.0
    programs: int = 0
    disagreements_checked: int = 0
    trusted_base: list = dataclasses.field(default_factory=list)
    assumptions: list = dataclasses.field(default_factory=list)
    checker_cmd: str = ""
    explanation: str = ""
    extra: dict = dataclasses.field(default_factory=dict)

    def merge(self, other: "Outcome") -> None:
        self.obligations += other.obligations
        self.discharged += other.discharged
        self.violations += other.violations
        self.inconclusive += other.inconclusive
        for s in other.samples:
            if len(self.samples) < 24:
                self.samples.append(s)
        self.functions_encoded += [f for f in other.functions_encoded if f not in self.functions_encoded]
        for k, v in other.bounds.items():
            self.bounds.setdefault(k, v)
        self.outside_claim += [x for x in other.outside_claim if x not in self.outside_claim]
        self.queries += other.queries
        self.solver_s += other.solver_s
        self.programs += other.programs
        self.disagreements_checked += other.disagreements_checked
        self.trusted_base += [x for x in other.trusted_base if x not in self.trusted_base]
        self.assumptions += [x for x in other.assumptions if x not in self.assumptions]
        for k, v in other.extra.items():
            if k in self.extra and isinstance(v, (int, float)) and isinstance(self.extra[k], (int, float)):
                self.extra[k] += v
            elif k in self.extra and isinstance(v, list) and isinstance(self.extra[k], list):
                self.extra[k] += v
            else:
                self.extra.setdefault(k, v)
        if other.checker_cmd and other.checker_cmd not in self.checker_cmd:
            self.checker_cmd = (self.checker_cmd + " ; " if self.checker_cmd else "") + other.checker_cmd
        if other.explanation:
            self.explanation = (self.explanation + " " if self.explanation else "") + other.explanation


def tier_from_env(argv_tier: str | None) -> str:
    t = argv_tier or os.environ.get("VERIF_TIER") or "quick"
    return "thorough" if t.startswith("t") else "quick"


def seed_from_env() -> int:
    try:
        return int(os.environ.get("VERIF_SEED", "0"))
    except ValueError:
        return 0


def load_known() -> dict:
    """known_findings.json: {"open": [{"property", "role", "what"}], "fixed": [...]}.
    Read only; never written at run time."""
    try:
        with open(KNOWN_FINDINGS) as f:
            return json.load(f)
    except FileNotFoundError:
        return {"open": [], "fixed": []}


def source_span(path: str, start_pat: str, end_pat: str | None = None, max_lines: int = 400) -> dict:
    """Describe (file, first line, last line, sha256 of text) of an item of /repo
    located by a start pattern; used to report 'functions encoded'."""
    full = path if os.path.isabs(path) else os.path.join(REPO, path)
    try:
        lines = open(full, encoding="utf-8").read().split("\n")
    except OSError:
        return {"file": path, "item": start_pat, "missing": True}
    for i, l in enumerate(lines):
        if start_pat in l:
            depth = 0
            seen = False
            for j in range(i, min(len(lines), i + max_lines)):
                depth += lines[j].count("{") - lines[j].count("}")
                if "{" in lines[j]:
                    seen = True
                if end_pat is not None and end_pat in lines[j] and j > i:
                    break
                if seen and depth <= 0:
                    break
            text = "\n".join(lines[i:j + 1])
            return {"file": path, "item": start_pat.strip(), "lines": [i + 1, j + 1],
                    "sha256": hashlib.sha256(text.encode()).hexdigest()[:16]}
    return {"file": path, "item": start_pat, "missing": True}


def file_hash(path: str) -> dict:
    full = path if os.path.isabs(path) else os.path.join(REPO, path)
    try:
        data = open(full, "rb").read()
    except OSError:
        return {"file": path, "missing": True}
    return {"file": path, "sha256": hashlib.sha256(data).hexdigest()[:16], "bytes": len(data)}


def run_cmd(cmd, cwd=None, env=None, timeout=None, mem_gb=None, log=None, input_text=None):
    """Run a command with a wall-clock cap (and an address-space cap).
    Returns (rc, stdout+stderr text, seconds); rc = -9 on timeout."""
    e = dict(os.environ)
    e.setdefault("CARGO_NET_OFFLINE", "true")
    if env:
        e.update(env)
    t0 = time.time()
    pre = None
    if mem_gb:
        import resource

        def pre():  # noqa: E306
            lim = int(mem_gb * (1 << 30))
            resource.setrlimit(resource.RLIMIT_AS, (lim, lim))
            os.setsid()
    else:
        pre = os.setsid
    p = subprocess.Popen(cmd, cwd=cwd, env=e, stdout=subprocess.PIPE, stderr=subprocess.STDOUT,
                         stdin=subprocess.PIPE if input_text is not None else subprocess.DEVNULL,
                         text=True, shell=isinstance(cmd, str), preexec_fn=pre)
    try:
        out, _ = p.communicate(input=input_text, timeout=timeout)
        rc = p.returncode
    except subprocess.TimeoutExpired:
        try:
            os.killpg(p.pid, 9)
        except ProcessLookupError:
            pass
        out, _ = p.communicate()
        rc = -9
        out = (out or "") + "\n[vlib] TIMEOUT after %ss\n" % timeout
    dt = time.time() - t0
    if log:
        os.makedirs(os.path.dirname(log), exist_ok=True)
        with open(log, "w") as f:
            f.write("$ %s\n" % (cmd if isinstance(cmd, str) else " ".join(cmd)))
            f.write(out or "")
            f.write("\n[rc=%s, %.1fs]\n" % (rc, dt))
    return rc, out or "", dt


def cargo_env(extra_rustflags: str = "", hooks: bool = True) -> dict:
    flags = []
    if hooks:
        flags.append("--cfg %s" % GUARD)
        flags.append("--check-cfg=cfg(%s)" % GUARD)
    if extra_rustflags:
        flags.append(extra_rustflags)
    return {
        "CARGO_NET_OFFLINE": "true",
        "CARGO_TARGET_DIR": TARGET_DIR,
        "RUSTFLAGS": " ".join(flags),
    }


def write_replay(prop_id: str, name: str, payload: dict) -> str:
    os.makedirs(REPLAY_DIR, exist_ok=True)
    safe = "".join(c if c.isalnum() or c in "-_." else "_" for c in name)[:120]
    path = os.path.join(REPLAY_DIR, "%s_%s.json" % (prop_id, safe))
    with open(path, "w") as f:
        json.dump(payload, f, indent=1, sort_keys=True, default=str)
    return path


def finish(prop_id: str, tier: str, seed: int, out: Outcome, t0: float) -> int:
    known = load_known()
    open_roles = {k["role"]: k for k in known.get("open", []) if k.get("property") == prop_id}
    unlisted = []
    listed = []
    for v in out.violations:
        if v.role in open_roles:
            listed.append(v)
        else:
            unlisted.append(v)
    seen = set()
    for v in listed:
        if v.role in seen:
            continue
        seen.add(v.role)
        print("KNOWN-FINDING: property=%s %s [%s]" % (prop_id, open_roles[v.role].get("what", v.what), v.role))
    for v in unlisted:
        print("VIOLATION property=%s replay=%s" % (prop_id, v.replay or "-"))
        print("  role=%s\n  what=%s" % (v.role, v.what))
    for m in out.inconclusive[:40]:
        print("INCONCLUSIVE property=%s %s" % (prop_id, m))

    wall = time.time() - t0
    cov: dict[str, Any] = {
        "obligations": out.obligations,
        "discharged": out.discharged,
        "queries": out.queries,
        "solver_s": round(out.solver_s, 2),
        "functions_encoded": out.functions_encoded,
        "bounds": out.bounds,
        "outside_claim": out.outside_claim,
        "trusted_base": out.trusted_base,
        "checker_cmd": out.checker_cmd or "(see engine)",
        "samples": out.samples[:24] if out.samples else ["(no sample recorded)"],
        "inconclusive": out.inconclusive[:40],
        "known_findings_reported": sorted(seen),
        "violations_unlisted": [dataclasses.asdict(v) for v in unlisted][:20],
        # generic keys (measured): evaluations = solver queries issued,
        # distinct_nontrivial = obligations whose query was not syntactically trivial
        "evaluations": max(out.queries, out.obligations),
        "distinct_nontrivial": out.extra.get("distinct_nontrivial", out.discharged),
        "rule": out.extra.get("rule", "one evaluation per solver query; an obligation is non-trivial when its goal is not "
                                      "syntactically `true` after simplification; distinct by (program, obligation name)"),
    }
    if out.level == "translation_validation":
        cov["programs"] = out.programs
        cov["disagreements_checked"] = out.disagreements_checked
    if out.level == "other" or out.explanation:
        cov["explanation"] = out.explanation or "see bounds/outside_claim"
    for k, v in out.extra.items():
        cov.setdefault(k, v)
    ev = {
        "property_id": prop_id,
        "tier": tier,
        "seed": seed,
        "level": out.level,
        "coverage": cov,
        "assumptions": out.assumptions,
        "wall_s": round(wall, 2),
        "violations": len(unlisted),
    }
    os.makedirs(EVIDENCE_DIR, exist_ok=True)
    tmp = os.path.join(EVIDENCE_DIR, ".%s.json.tmp" % prop_id)
    with open(tmp, "w") as f:
        json.dump(ev, f, indent=1, default=str)
    os.replace(tmp, os.path.join(EVIDENCE_DIR, "%s.json" % prop_id))

    if unlisted:
        rc = 1
    elif out.inconclusive:
        rc = 2
    elif out.obligations == 0 or out.discharged + len({v.role for v in listed}) == 0:
        print("INCONCLUSIVE property=%s nothing was discharged" % prop_id)
        rc = 2
    else:
        rc = 0
    print("RESULT property=%s tier=%s obligations=%d discharged=%d known=%d violations=%d inconclusive=%d wall=%.1fs exit=%d"
          % (prop_id, tier, out.obligations, out.discharged, len(seen), len(unlisted), len(out.inconclusive), wall, rc))
    return rc
